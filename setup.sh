#!/bin/sh
# MANIFEST.setup_cmd: offline build of the property test binary (warms the Go build cache).
set -e
cd "$(dirname "$0")"
export GOFLAGS=-mod=mod GOPROXY=off GOSUMDB=off GOTOOLCHAIN=local
mkdir -p bin evidence replays
go vet -tags verif ./internal/... >/dev/null 2>&1 || true
go test -c -tags verif -o bin/setup.props.test ./props
go test -c -race -tags verif -o bin/setup.props.race.test ./props
rm -f bin/setup.props.test bin/setup.props.race.test
echo "setup ok"
