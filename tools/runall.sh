#!/bin/sh
# usage: tools/runall.sh [tier] [parallelism]  — runs every claimed check, prints one line per property
TIER=${1:-quick}; PAR=${2:-4}
cd "$(dirname "$0")/.."
IDS=$(python3 -c "import json;print(' '.join(c['property_id'] for c in json.load(open('MANIFEST.json'))['checks']))")
mkdir -p bin/runall
echo $IDS | tr ' ' '\n' | xargs -P $PAR -I{} sh -c "./check {} $TIER > bin/runall/{}.$TIER.out 2>&1; echo \"{} rc=\$? \$(tail -1 bin/runall/{}.$TIER.out | cut -c1-150)\""
