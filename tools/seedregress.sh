#!/bin/sh
# usage: tools/seedregress.sh [parallelism] [dir-glob]
# Sensitivity regression: applies every recorded seeded change (seeded/*/patch.diff) to a
# scratch copy of /repo HEAD and runs a quick check against it (VERIF_REPO): the check of the
# change's own property when meta.json lists it under detected_by_quick_checks, otherwise the
# first check listed there. Every line must read "caught"; "MISSED" means a check lost
# sensitivity. A patch that no longer applies (the lines were rewritten by a later fix commit)
# is reported as not applicable.
PAR=${1:-4}; GLOB=${2:-*}
cd "$(dirname "$0")/.."
ls -d seeded/$GLOB | xargs -P "$PAR" -I{} sh -c '
  d={}; own=$(basename $d | cut -c1-3)
  id=$(python3 -c "
import json,sys
m=json.load(open(\"$d/meta.json\"))
det=m.get(\"detected_by_quick_checks\") or [\"$own\"]
print(\"$own\" if \"$own\" in det else det[0])")
  w=$(mktemp -d /tmp/seedreg-XXXXXX)
  rsync -a --exclude .git /repo/ $w/
  if ! (cd $w && git apply --whitespace=nowarn '"$PWD"'/$d/patch.diff 2>/dev/null || patch -p1 -s < '"$PWD"'/$d/patch.diff >/dev/null 2>&1); then echo "$d: not applicable (patch does not apply to this tree)"; rm -rf $w; exit 0; fi
  out=$(VERIF_REPO=$w ./check $id quick 2>&1); rc=$?
  rm -rf $w
  known_uncaught=$(python3 -c "
import json
m=json.load(open(\"$d/meta.json\"))
print(1 if m.get(\"detected_by_quick_checks\") == [] else 0)")
  if [ $rc -eq 1 ]; then echo "$d: caught by $id"; elif [ "$known_uncaught" = 1 ]; then echo "$d: not caught (recorded as uncaught; the reason is in its meta.json)"; else echo "$d: MISSED by $id rc=$rc $(echo "$out" | tail -1 | cut -c1-120)"; fi
'
