#!/bin/sh
# usage: tools/seedtest.sh <ID> <dir-with-patch.diff-and-demo> [tier] [more property ids to run...]
# Confirms a seeded change independently in a fresh scratch copy of /repo:
#   1. patch.diff applies to /repo HEAD and the module builds
#   2. the existing test suite passes with the patch
#   3. the demonstration test fails with the patch and passes without it
#   4. runs ./check <ID> <tier> against the patched copy (VERIF_REPO) and reports the verdict
# The scratch copies are removed at the end.
ID=$1; SRC=$2; TIER=${3:-quick}
shift; shift; [ $# -gt 0 ] && shift
EXTRA="$*"
export GOFLAGS=-mod=mod GOPROXY=off GOSUMDB=off GOTOOLCHAIN=local
PATCHED=$(mktemp -d /tmp/seedchk-p-XXXXXX); CLEAN=$(mktemp -d /tmp/seedchk-c-XXXXXX)
cleanup() { rm -rf "$PATCHED" "$CLEAN"; }
trap cleanup EXIT
git -C /repo archive HEAD | tar -x -C "$PATCHED"
git -C /repo archive HEAD | tar -x -C "$CLEAN"
if ! (cd "$PATCHED" && git init -q . && git apply "$SRC/patch.diff"); then echo "RESULT $ID patch-does-not-apply"; exit 3; fi
rm -rf "$PATCHED/.git"
if ! (cd "$PATCHED" && go build ./... ) >/dev/null 2>&1; then echo "RESULT $ID patched-tree-does-not-build"; exit 3; fi
DEMO=$(ls "$SRC"/zz_seed_demo_test.go 2>/dev/null | head -1)
DEMODIR=$(grep -il "package " "$DEMO" >/dev/null 2>&1; sed -n 's/^package \([a-z_]*\).*/\1/p' "$DEMO" | head -1)
case "$DEMODIR" in
  biscuit|biscuit_test) SUB=. ;;
  datalog|datalog_test) SUB=datalog ;;
  parser|parser_test) SUB=parser ;;
  *) SUB=. ;;
esac
[ -n "$SEED_SUBDIR" ] && SUB=$SEED_SUBDIR
echo "--- existing suite with the patch"
SUITE=fail
for TRY in 1 2 3 4 5 6 7 8 9 10; do
  # the baseline has a known timing flake under load (2 ms default run limit): retry
  if (cd "$PATCHED" && go test -vet=off -count=1 -p 1 ./... ) > "$PATCHED/suite.log" 2>&1; then SUITE=pass; break; fi
  grep -qE "world runtime limit: timeout|samples_test.go" "$PATCHED/suite.log" || break
done
if [ $SUITE = pass ]; then echo "suite: PASS (attempt $TRY)"; else echo "suite: FAIL"; grep -E "^(--- FAIL|FAIL|panic)" "$PATCHED/suite.log" | head -10; echo "RESULT $ID suite-fails-with-patch"; exit 3; fi
cp "$DEMO" "$PATCHED/$SUB/"; cp "$DEMO" "$CLEAN/$SUB/"
echo "--- demonstration with the patch (must fail)"
if (cd "$PATCHED/$SUB" && go test -vet=off -count=1 -run "Seed|Demo|seed" . ) > "$PATCHED/demo.log" 2>&1; then echo "demo with patch: PASS (unexpected)"; DEMOP=pass; else echo "demo with patch: FAIL (expected)"; DEMOP=fail; fi
echo "--- demonstration without the patch (must pass)"
if (cd "$CLEAN/$SUB" && go test -vet=off -count=1 -run "Seed|Demo|seed" . ) > "$CLEAN/demo.log" 2>&1; then echo "demo without patch: PASS (expected)"; DEMOC=pass; else echo "demo without patch: FAIL (unexpected)"; tail -10 "$CLEAN/demo.log"; DEMOC=fail; fi
rm -f "$PATCHED/$SUB/zz_seed_demo_test.go"
echo "--- checks against the patched copy"
for P in $ID $EXTRA; do
  VERIF_REPO="$PATCHED" /verif/check "$P" "$TIER" > "$PATCHED/check.$P.log" 2>&1; RC=$?
  echo "check $P $TIER rc=$RC: $(grep -m1 -E 'VIOLATION|OK property|inconclusive' "$PATCHED/check.$P.log" | cut -c1-200)"
  grep -A3 -m1 VIOLATION "$PATCHED/check.$P.log" | tail -3 | cut -c1-400
done
echo "RESULT $ID demo_with_patch=$DEMOP demo_without=$DEMOC"
