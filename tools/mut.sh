#!/bin/sh
# usage: tools/mut.sh <ID> <file> <sed-expression> [tier]
# Applies a one-line mutation to a scratch copy of /repo, builds it, runs the check against it, removes the copy.
set -e
ID=$1; FILE=$2; EXPR=$3; TIER=${4:-quick}
D=$(mktemp -d /tmp/mut-XXXXXX)
rsync -a --exclude .git /repo/ "$D/"
sed -i "$EXPR" "$D/$FILE"
if diff -q /repo/$FILE "$D/$FILE" >/dev/null; then echo "MUTATION DID NOT APPLY"; rm -rf "$D"; exit 3; fi
diff /repo/$FILE "$D/$FILE" | head -6
( cd "$D" && GOFLAGS=-mod=mod GOPROXY=off GOSUMDB=off go build ./... ) || { echo "MUTANT DOES NOT BUILD"; rm -rf "$D"; exit 3; }
set +e
VERIF_REPO="$D" /verif/check "$ID" "$TIER"; rc=$?
rm -rf "$D"
echo "mutant rc=$rc"
