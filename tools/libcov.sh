#!/bin/sh
# usage: tools/libcov.sh   — development aid, not a check.
# Builds the property tests with statement coverage of the library (-coverpkg), runs the quick
# tier of every in-process check once and prints, per library file, how many statements the
# generated cases reached, plus the list of blocks never reached (bin/cov/uncovered.json).
# C10 and C19 run their cases in worker processes and are not counted.
set -e
cd "$(dirname "$0")/.."
export GOFLAGS=-mod=mod GOPROXY=off GOSUMDB=off GOTOOLCHAIN=local
D=$PWD/bin/cov; rm -rf "$D"; mkdir -p "$D/out"
go test -c -tags verif -cover -coverpkg=github.com/biscuit-auth/biscuit-go/v2/... -o "$D/props.cov.test" ./props
for id in C01 C02 C03 C04 C05 C06 C07 C08 C09 C11 C12 C13 C14 C15 C16 C17 C18 C20; do
  n=$(python3 -c "
import re;s=open('check').read();m=re.search(r'\"$id\": dict\(quick=(\d+)',s);print(m.group(1))")
  ( cd props && VERIF_OUT=$D/out/$id.json VERIF_ROOT=$PWD/.. VERIF_TIER=quick VERIF_REPLAY_DIR=$D/out VERIF_BIN=$D/props.cov.test VERIF_SHARD=0 VERIF_SEED_EFFECTIVE=5 \
    "$D/props.cov.test" -test.run "^Test$id\$" -test.count=1 -rapid.seed=5 -rapid.checks=$n -rapid.nofailfile -test.coverprofile=$D/out/$id.cov > $D/out/$id.log 2>&1 ) &
done
wait
python3 - "$D" <<'PY'
import glob,collections,json,sys
D=sys.argv[1]
cov=collections.defaultdict(int); stm={}
for f in glob.glob(D+"/out/*.cov"):
    for line in open(f):
        if line.startswith("mode:"): continue
        loc,n,c=line.rsplit(" ",2)
        cov[loc]+=int(c); stm[loc]=int(n)
byfile=collections.defaultdict(lambda:[0,0,[]])
for loc,c in cov.items():
    fn=loc.split(":")[0]
    if fn.endswith(".pb.go") or "/cmd/" in fn or "/experiments/" in fn or "sample" in fn: continue
    b=byfile[fn]; b[1]+=stm[loc]
    if c>0: b[0]+=stm[loc]
    else: b[2].append(loc.split(":")[1])
tot=[0,0]
for fn,(c,t,unc) in sorted(byfile.items()):
    tot[0]+=c; tot[1]+=t
    print(f"{fn.split('/v2/')[1]:40s} {c}/{t} = {100*c/t:.0f}%")
print("total %d/%d = %.1f%%"%(tot[0],tot[1],100*tot[0]/tot[1]))
json.dump({fn.split('/v2/')[1]:sorted(unc,key=lambda s:int(s.split('.')[0])) for fn,(c,t,unc) in byfile.items()}, open(D+"/uncovered.json","w"), indent=0)
PY
