#!/usr/bin/env python3
"""Mechanical mutation analysis of the checks (development aid, not a check).

  tools/mutation.py sites              list the mutation sites of the library that the quick tier reaches
  tools/mutation.py suite  [-j N] [-n K]   phase A: which mutants compile and pass the existing test suite
  tools/mutation.py checks [-j N]          phase B: run the quick checks against the suite survivors
  tools/mutation.py report                 write mutation/REPORT.md and mutation/results.jsonl

Mutants are produced by tools/gomutate (first-order operators). Only sites on lines that the
quick tier executes (tools/libcov.sh profiles in bin/cov/out) are used: a mutant in code no
generated case reaches cannot be told from the original by any check. Scratch copies of /repo
live under /tmp/mutwork and are removed at the end of each phase.
"""
import glob
import hashlib
import json
import os
import re
import shutil
import subprocess
import sys
from concurrent.futures import ThreadPoolExecutor

ROOT = os.path.dirname(os.path.dirname(os.path.abspath(__file__)))
REPO = "/repo"
OUT = os.path.join(ROOT, "bin", "mutation")
FILES = ["authorizer.go", "biscuit.go", "builder.go", "converters.go", "converters_v2.go", "options.go", "types.go",
         "datalog/datalog.go", "datalog/expressions.go", "datalog/symbol.go", "parser/grammar.go", "parser/parser.go"]
ORDER = {
    "datalog/expressions.go": ["C06", "C05", "C04", "C10", "C15"],
    "datalog/datalog.go": ["C05", "C11", "C04", "C06", "C12", "C03", "C13"],
    "datalog/symbol.go": ["C07", "C15", "C08", "C10", "C18", "C04"],
    "authorizer.go": ["C04", "C03", "C02", "C13", "C18", "C11", "C12", "C08"],
    "biscuit.go": ["C01", "C09", "C07", "C08", "C16", "C17", "C20", "C10", "C15"],
    "builder.go": ["C07", "C08", "C20", "C14", "C09", "C16"],
    "converters.go": ["C07", "C10", "C18", "C15"],
    "converters_v2.go": ["C07", "C10", "C18", "C15", "C06"],
    "types.go": ["C07", "C15", "C04", "C14", "C18", "C08"],
    "options.go": ["C16", "C20"],
    "parser/grammar.go": ["C14", "C15"],
    "parser/parser.go": ["C14", "C15", "C19"],
}
ALL = ["C%02d" % i for i in range(1, 21)]
ENV = dict(os.environ, GOFLAGS="-mod=mod", GOPROXY="off", GOSUMDB="off", GOTOOLCHAIN="local")


def sh(cmd, cwd=None, timeout=None, env=None):
    try:
        p = subprocess.run(cmd, cwd=cwd, env=env or ENV, stdout=subprocess.PIPE, stderr=subprocess.STDOUT, timeout=timeout, text=True)
        return p.returncode, p.stdout
    except subprocess.TimeoutExpired as e:
        return 124, (e.stdout or "") if isinstance(e.stdout, str) else ""


def covered_lines():
    cov = {}
    for f in glob.glob(os.path.join(ROOT, "bin", "cov", "out", "*.cov")):
        for line in open(f):
            if line.startswith("mode:"):
                continue
            loc, _n, c = line.rsplit(" ", 2)
            if int(c) == 0:
                continue
            fn, rng = loc.split(":")
            fn = fn.split("/v2/")[1]
            a, b = rng.split(",")
            for l in range(int(a.split(".")[0]), int(b.split(".")[0]) + 1):
                cov.setdefault(fn, set()).add(l)
    return cov


def sites():
    cov = covered_lines()
    if not cov:
        sys.exit("no coverage profiles: run tools/libcov.sh first")
    out = []
    for f in FILES:
        rc, txt = sh([os.path.join(ROOT, "bin", "gomutate"), "-list", os.path.join(REPO, f)])
        for line in txt.splitlines():
            idx, ln, op, desc = line.split("\t", 3)
            if int(ln) in cov.get(f, ()):
                out.append(dict(file=f, index=int(idx), line=int(ln), op=op, desc=desc, id="%s#%s" % (f, idx)))
    return out


def scratch(k):
    d = "/tmp/mutwork/w%d" % k
    if not os.path.isdir(d):
        os.makedirs(d)
        sh(["rsync", "-a", "--exclude", ".git", REPO + "/", d + "/"])
    return d


def apply(mut, d):
    # restore every library file, then mutate one
    for f in FILES:
        shutil.copyfile(os.path.join(REPO, f), os.path.join(d, f))
    rc, out = sh([os.path.join(ROOT, "bin", "gomutate"), "-apply", str(mut["index"]), os.path.join(REPO, mut["file"]), os.path.join(d, mut["file"])])
    return rc == 0


FLAKE = re.compile(r"world runtime limit: timeout|samples_test\.go")


def phase_suite(muts, jobs):
    os.makedirs(OUT, exist_ok=True)
    done = {}
    path = os.path.join(OUT, "suite.jsonl")
    if os.path.exists(path):
        for l in open(path):
            r = json.loads(l)
            done[r["id"]] = r
    todo = [m for m in muts if m["id"] not in done]
    fh = open(path, "a")

    def work(args):
        k, chunk = args
        d = scratch(k)
        for mut in chunk:
            r = dict(mut)
            if not apply(mut, d):
                r["suite"] = "mutator-error"
            else:
                rc, out = sh(["go", "build", "./..."], cwd=d, timeout=300)
                if rc != 0:
                    r["suite"] = "nobuild"
                else:
                    # The baseline has a timing flake (2 ms default run limit) that grows with machine load.
                    # A mutant counts as killed when some test fails for another reason: in a run without
                    # any flake symptom, or twice over the attempts. Only-flaky attempts are retried.
                    r["suite"] = "flaky"
                    hard = {}
                    for attempt in range(6):
                        rc, out = sh(["go", "test", "-vet=off", "-count=1", "-p", "1", "./..."], cwd=d, timeout=900)
                        if rc == 0:
                            r["suite"] = "survived"
                            break
                        if "build failed" in out:
                            r["suite"] = "nobuild"  # test files do not compile against the mutant
                            break
                        blocks, cur = {}, None
                        for l in out.splitlines():
                            if l.startswith("--- FAIL: "):
                                cur = l.split()[2]
                                blocks[cur] = ""
                            elif l.startswith(("FAIL", "ok ", "panic:", "=== ")):
                                if l.startswith("panic:") and cur is None:
                                    blocks["panic"] = l
                                cur = None if not l.startswith("panic:") else cur
                            elif cur is not None:
                                blocks[cur] += l + "\n"
                        hardnow = [t for t, txt in blocks.items() if not FLAKE.search(txt) and not FLAKE.search(out if t == "panic" else "")]
                        if rc == 124:
                            hardnow.append("timeout-of-the-whole-suite")
                        for t in hardnow:
                            hard[t] = hard.get(t, 0) + 1
                        flaky_run = bool(FLAKE.search(out))
                        r["flaky_retries"] = attempt + 1
                        if hardnow and (not flaky_run or max(hard.values()) >= 2):
                            r["suite"] = "killed"
                            r["suite_tail"] = ", ".join(sorted(hard))[:200]
                            break
            fh.write(json.dumps(r) + "\n")
            fh.flush()
        return len(chunk)

    chunks = [(k, todo[k::jobs]) for k in range(jobs)]
    with ThreadPoolExecutor(jobs) as ex:
        list(ex.map(work, chunks))
    fh.close()
    shutil.rmtree("/tmp/mutwork", ignore_errors=True)


def phase_checks(jobs):
    suite = [json.loads(l) for l in open(os.path.join(OUT, "suite.jsonl"))]
    # "flaky": every attempt failed, but only with the symptoms of the baseline's timing flake
    # (machine load) -- such a mutant may well pass the suite on a quiet machine, so it is tried too
    surv = [r for r in suite if r["suite"] in ("survived", "flaky")]
    path = os.path.join(OUT, "checks.jsonl")
    done = {}
    if os.path.exists(path):
        for l in open(path):
            r = json.loads(l)
            done[r["id"]] = r
    todo = [m for m in surv if m["id"] not in done]
    fh = open(path, "a")

    def work(args):
        k, chunk = args
        d = scratch(k)
        for mut in chunk:
            r = {x: mut[x] for x in ("id", "file", "index", "line", "op", "desc")}
            apply(mut, d)
            order = ORDER.get(mut["file"], []) + [c for c in ALL if c not in ORDER.get(mut["file"], []) and c != "C19"]
            r["killed_by"], r["tried"], r["inconclusive"] = None, [], []
            for cid in order:
                rc, out = sh([os.path.join(ROOT, "check"), cid, "quick"], cwd=ROOT, timeout=900, env=dict(ENV, VERIF_REPO=d))
                r["tried"].append(cid)
                if rc == 1:
                    r["killed_by"] = cid
                    m = re.search(r"VIOLATION[^\n]*\n([^\n]*)", out)
                    r["message"] = (m.group(1).strip()[:300] if m else "")
                    break
                if rc != 0:
                    r["inconclusive"].append(cid)
            fh.write(json.dumps(r) + "\n")
            fh.flush()
        return len(chunk)

    chunks = [(k, todo[k::jobs]) for k in range(jobs)]
    with ThreadPoolExecutor(jobs) as ex:
        list(ex.map(work, chunks))
    fh.close()
    shutil.rmtree("/tmp/mutwork", ignore_errors=True)


def report():
    suite = [json.loads(l) for l in open(os.path.join(OUT, "suite.jsonl"))]
    checks = {}
    p = os.path.join(OUT, "checks.jsonl")
    if os.path.exists(p):
        for l in open(p):
            r = json.loads(l)
            checks[r["id"]] = r
    os.makedirs(os.path.join(ROOT, "mutation"), exist_ok=True)
    rows = []
    for r in suite:
        c = checks.get(r["id"], {})
        status = r["suite"]
        if status == "survived":
            status = "killed-by-" + c["killed_by"] if c.get("killed_by") else ("not-run" if not c else "survived-all")
        elif status == "flaky" and c:
            status = "suite-inconclusive/" + ("killed-by-" + c["killed_by"] if c.get("killed_by") else "survived-all")
        elif status == "flaky":
            status = "suite-inconclusive/checks-not-run"
        rows.append(dict(id=r["id"], file=r["file"], line=r["line"], op=r["op"], desc=r["desc"], status=status, message=c.get("message", "")))
    with open(os.path.join(ROOT, "mutation", "results.jsonl"), "w") as fh:
        for r in rows:
            fh.write(json.dumps(r) + "\n")
    n = len(rows)
    cnt = {}
    for r in rows:
        k = re.sub(r"killed-by-C\d\d", "killed-by-a-check", r["status"])
        cnt[k] = cnt.get(k, 0) + 1
    print(json.dumps(cnt, indent=1), n)


def main():
    args = sys.argv[1:]
    if not args:
        sys.exit(__doc__)
    jobs = int(args[args.index("-j") + 1]) if "-j" in args else 8
    limit = int(args[args.index("-n") + 1]) if "-n" in args else 0
    if args[0] == "sites":
        s = sites()
        for m in s:
            print("%s\t%d\t%s\t%s" % (m["id"], m["line"], m["op"], m["desc"]))
        print(len(s), "sites", file=sys.stderr)
    elif args[0] == "suite":
        s = sites()
        if limit:
            s.sort(key=lambda m: hashlib.sha256(m["id"].encode()).hexdigest())
            s = s[:limit]
        phase_suite(s, jobs)
    elif args[0] == "checks":
        phase_checks(jobs)
    elif args[0] == "report":
        report()


if __name__ == "__main__":
    main()
