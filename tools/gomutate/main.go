// Command gomutate enumerates or applies first-order source mutations of one Go file.
//
//	gomutate -list <file.go>            one line per mutation site: index, line, operator, description
//	gomutate -apply N <file.go> <out>   writes the file with mutation N applied to <out>
//
// It is the mechanical counterpart of the seeded changes of DESIGN 7.5: classic mutation
// operators (relational / logical / arithmetic operator replacement, negation removal,
// statement deletion, guard removal, integer literal change, Clone() removal). Development
// aid for measuring the sensitivity of the checks (tools/mutation.py); not a check.
package main

import (
	"bytes"
	"flag"
	"fmt"
	"go/ast"
	"go/format"
	"go/parser"
	"go/token"
	"os"
	"strconv"
	"strings"
)

type site struct {
	line  int
	op    string
	desc  string
	apply func()
}

var binSwap = map[token.Token][]token.Token{
	token.EQL:  {token.NEQ},
	token.NEQ:  {token.EQL},
	token.LSS:  {token.LEQ, token.GTR},
	token.LEQ:  {token.LSS},
	token.GTR:  {token.GEQ, token.LSS},
	token.GEQ:  {token.GTR},
	token.LAND: {token.LOR},
	token.LOR:  {token.LAND},
	token.ADD:  {token.SUB},
	token.SUB:  {token.ADD},
}

func render(fset *token.FileSet, n ast.Node) string {
	var b bytes.Buffer
	_ = format.Node(&b, fset, n)
	s := strings.Join(strings.Fields(b.String()), " ")
	if len(s) > 70 {
		s = s[:70] + "..."
	}
	return s
}

func collect(fset *token.FileSet, f *ast.File) []site {
	var sites []site
	line := func(p token.Pos) int { return fset.Position(p).Line }
	var inFunc string
	// statement lists, so that statements can be deleted
	var visitBlock func(list *[]ast.Stmt)
	visitBlock = func(list *[]ast.Stmt) {
		for i := range *list {
			i := i
			st := (*list)[i]
			switch s := st.(type) {
			case *ast.ExprStmt:
				if _, ok := s.X.(*ast.CallExpr); ok {
					sites = append(sites, site{line(s.Pos()), "del-call", inFunc + ": delete `" + render(fset, s) + "`", func() { (*list)[i] = &ast.EmptyStmt{Semicolon: s.Pos()} }})
				}
			case *ast.AssignStmt:
				if s.Tok == token.ASSIGN || s.Tok == token.ADD_ASSIGN {
					sites = append(sites, site{line(s.Pos()), "del-assign", inFunc + ": delete `" + render(fset, s) + "`", func() { (*list)[i] = &ast.EmptyStmt{Semicolon: s.Pos()} }})
				}
			case *ast.IncDecStmt:
				sites = append(sites, site{line(s.Pos()), "del-incdec", inFunc + ": delete `" + render(fset, s) + "`", func() { (*list)[i] = &ast.EmptyStmt{Semicolon: s.Pos()} }})
			case *ast.BranchStmt:
				if s.Tok == token.BREAK || s.Tok == token.CONTINUE {
					sites = append(sites, site{line(s.Pos()), "del-branch", inFunc + ": delete `" + s.Tok.String() + "`", func() { (*list)[i] = &ast.EmptyStmt{Semicolon: s.Pos()} }})
				}
			case *ast.IfStmt:
				if s.Else == nil && len(s.Body.List) > 0 {
					if _, ok := s.Body.List[len(s.Body.List)-1].(*ast.ReturnStmt); ok {
						sites = append(sites, site{line(s.Pos()), "del-guard", inFunc + ": drop the body of `if " + render(fset, s.Cond) + "` (early return)", func() { s.Body.List = nil }})
					}
				}
			}
		}
	}
	ast.Inspect(f, func(n ast.Node) bool {
		switch x := n.(type) {
		case *ast.FuncDecl:
			inFunc = x.Name.Name
			if x.Recv != nil && len(x.Recv.List) > 0 {
				inFunc = render(fset, x.Recv.List[0].Type) + "." + x.Name.Name
			}
		case *ast.BlockStmt:
			visitBlock(&x.List)
		case *ast.CaseClause:
			visitBlock(&x.Body)
		case *ast.BinaryExpr:
			for _, to := range binSwap[x.Op] {
				from, to := x.Op, to
				// string concatenation with + cannot become -
				if from == token.ADD {
					if bl, ok := x.X.(*ast.BasicLit); ok && bl.Kind == token.STRING {
						continue
					}
					if bl, ok := x.Y.(*ast.BasicLit); ok && bl.Kind == token.STRING {
						continue
					}
				}
				sites = append(sites, site{line(x.OpPos), "binop", fmt.Sprintf("%s: `%s`: %s -> %s", inFunc, render(fset, x), from, to), func() { x.Op = to }})
			}
		case *ast.UnaryExpr:
			if x.Op == token.NOT {
				sites = append(sites, site{line(x.Pos()), "del-not", inFunc + ": `" + render(fset, x) + "`: drop the negation", func() { x.X = &ast.UnaryExpr{Op: token.NOT, X: &ast.ParenExpr{X: x.X}} }})
			}
		case *ast.BasicLit:
			if x.Kind == token.INT {
				if v, err := strconv.ParseInt(x.Value, 0, 64); err == nil && v >= 0 && v < 1<<40 {
					nv := v + 1
					if v == 1 {
						nv = 0
					}
					old := x.Value
					sites = append(sites, site{line(x.Pos()), "int-lit", fmt.Sprintf("%s: integer literal %s -> %d", inFunc, old, nv), func() { x.Value = strconv.FormatInt(nv, 10) }})
				}
			}
		case *ast.CallExpr:
			if sel, ok := x.Fun.(*ast.SelectorExpr); ok && sel.Sel.Name == "Clone" && len(x.Args) == 0 {
				sites = append(sites, site{line(x.Pos()), "del-clone", inFunc + ": `" + render(fset, x) + "` -> `" + render(fset, sel.X) + "` (no copy)", func() {
					// replace the call by its receiver: turn f() into (recv) by making it a paren expr via Fun
					x.Fun = &ast.ParenExpr{X: sel.X}
					x.Args = nil
					x.Lparen, x.Rparen = token.NoPos, token.NoPos
					dropCall[x] = true
				}})
			}
		}
		return true
	})
	return sites
}

// dropCall marks call expressions that must be printed as their Fun only.
var dropCall = map[*ast.CallExpr]bool{}

// rewriteDropped replaces marked calls by their receiver expression in the parents.
func rewriteDropped(f *ast.File) {
	repl := func(e ast.Expr) ast.Expr {
		if c, ok := e.(*ast.CallExpr); ok && dropCall[c] {
			return c.Fun
		}
		return e
	}
	ast.Inspect(f, func(n ast.Node) bool {
		switch x := n.(type) {
		case *ast.AssignStmt:
			for i := range x.Rhs {
				x.Rhs[i] = repl(x.Rhs[i])
			}
		case *ast.ValueSpec:
			for i := range x.Values {
				x.Values[i] = repl(x.Values[i])
			}
		case *ast.KeyValueExpr:
			x.Value = repl(x.Value)
		case *ast.CallExpr:
			for i := range x.Args {
				x.Args[i] = repl(x.Args[i])
			}
		case *ast.ReturnStmt:
			for i := range x.Results {
				x.Results[i] = repl(x.Results[i])
			}
		case *ast.CompositeLit:
			for i := range x.Elts {
				x.Elts[i] = repl(x.Elts[i])
			}
		case *ast.SelectorExpr:
			x.X = repl(x.X)
		}
		return true
	})
}

func main() {
	list := flag.Bool("list", false, "list mutation sites")
	apply := flag.Int("apply", -1, "apply mutation N")
	flag.Parse()
	if flag.NArg() < 1 {
		fmt.Fprintln(os.Stderr, "usage: gomutate -list file.go | gomutate -apply N file.go out.go")
		os.Exit(2)
	}
	fset := token.NewFileSet()
	f, err := parser.ParseFile(fset, flag.Arg(0), nil, parser.ParseComments)
	if err != nil {
		fmt.Fprintln(os.Stderr, err)
		os.Exit(2)
	}
	sites := collect(fset, f)
	if *list {
		for i, s := range sites {
			fmt.Printf("%d\t%d\t%s\t%s\n", i, s.line, s.op, s.desc)
		}
		return
	}
	if *apply < 0 || *apply >= len(sites) || flag.NArg() < 2 {
		fmt.Fprintln(os.Stderr, "bad -apply index or missing output path")
		os.Exit(2)
	}
	sites[*apply].apply()
	rewriteDropped(f)
	var b bytes.Buffer
	if err := format.Node(&b, fset, f); err != nil {
		fmt.Fprintln(os.Stderr, err)
		os.Exit(2)
	}
	if err := os.WriteFile(flag.Arg(1), b.Bytes(), 0o644); err != nil {
		fmt.Fprintln(os.Stderr, err)
		os.Exit(2)
	}
}
