#!/usr/bin/env python3
"""Writes /verif/MANIFEST.json from the table below (kept valid at all times)."""
import json
import os

ROOT = os.path.dirname(os.path.dirname(os.path.abspath(__file__)))

# id -> (technique, level text, level note, design ref)
CLAIMED = {
    "C06": (
        "exhaustive operator x boundary-value table + rapid typed expression trees and raw operator sequences, differential against an independent math/big evaluator",
        "Every unary/binary operator is evaluated on every (pair of) value(s) of a 53-value boundary pool (complete enumeration, ~48k cells) and on tens of thousands of generated type-correct trees and malformed postfix sequences; each library result must equal the value or error of an independent arbitrary-precision evaluator and must not panic. Exploration: the table is complete for its pool, the rest is sampled.",
        "Trusts Go's regexp (shared primitive) and the reference evaluator written from the property's operator table; string length asserted on ASCII only; union/intersection of differently-typed sets: totality only.",
        "4/C06"),
}

NOT_YET = "check not built yet in this session (planned in DESIGN.md section 4); not claimed until its check runs clean on the unchanged tree"


def main():
    props = [json.loads(l) for l in open(os.path.join(ROOT, "properties.jsonl")) if l.strip()]
    checks, na = [], []
    for p in props:
        pid = p["id"]
        if pid in CLAIMED:
            tech, text, note, ref = CLAIMED[pid]
            cat = "fault_enumeration" if pid == "C20" else "exploration"
            checks.append({
                "property_id": pid,
                "quick_cmd": f"./check {pid} quick",
                "thorough_cmd": f"./check {pid} thorough",
                "evidence_file": f"/verif/evidence/{pid}.json",
                "replay_cmd_template": f"./check {pid} quick --replay {{path}}",
                "engine": "props",
                "level_claimed": {"category": cat, "text": text, "design_ref": f"DESIGN.md section {ref}"},
                "level_note": note,
                "technique": tech,
            })
        else:
            na.append({"property_id": pid, "reason": NOT_YET})
    man = {
        "version": 1,
        "setup_cmd": "./setup.sh",
        "hooks": {
            "guard": "verif",
            "enable": "checks build with `go test -tags verif`; no source hook exists in /repo (public API only), so the tag currently guards nothing",
            "baseline_off_cmd": "cd /repo && GOFLAGS=-mod=mod GOPROXY=off GOSUMDB=off go test -vet=off -count=1 -timeout 25m ./...",
            "source_commits": [],
            "add_only": True,
        },
        "engines": [{
            "name": "props",
            "path": "/verif/props",
            "serves_properties": sorted(CLAIMED),
            "kind_free_text": "Go test binary (pgregory.net/rapid v1.3.0 + native go fuzzing) built from /repo's working tree by ./check; oracles in /verif/internal/ref and /verif/internal/wire share no code with the library",
        }],
        "checks": checks,
        "not_applicable": na,
        "notes": "Driver: ./check <ID> <quick|thorough> [--replay file]; exit 0 held / 1 VIOLATION / 2 inconclusive. VERIF_SEED selects the rapid seed (0 is remapped). Known findings: KNOWN_FINDINGS.txt.",
    }
    with open(os.path.join(ROOT, "MANIFEST.json"), "w") as f:
        json.dump(man, f, indent=1)
        f.write("\n")


if __name__ == "__main__":
    main()
