#!/usr/bin/env python3
"""Writes /verif/MANIFEST.json from the table below (kept valid at all times)."""
import json
import os

ROOT = os.path.dirname(os.path.dirname(os.path.abspath(__file__)))

# id -> (technique, level text, level note, design ref)
CLAIMED = {
    "C01": ("rapid token histories x 26-entry catalogue of envelope mutations, differential against an independent ed25519 chain walk over an independent protobuf reader (both directions); native byte fuzzing in thorough",
            "Every generated (history, mutation, verifying root) is judged by a reference chain verifier that shares no code with the library; accept and reject must agree exactly for structural mutations, soundness for raw byte mutations; every library-built token and every token signed by the harness's own signer must be accepted. Exploration of the catalogue, not a proof of unforgeability.",
            "crypto/ed25519 trusted; root key id and protobuf encoding slack are unsigned and not claimed tamper-evident.", "4/C01"),
    "C02": ("rapid goal-directed scenarios + adversarial appended block (API-built and wire-built with the holder's secret), metamorphic implication ok(T+B) => ok(T) plus reference verdict of the parent",
            "Blocks are aimed at the reason the parent is refused (facts instantiating failing checks and allow-policy queries, rules deriving them, copies of authority facts, symbol-table tricks at wire level); acceptance of the extended token while the parent is refused is a violation.",
            "A block that the builders or Unmarshal refuse counts as not widening; parent verdicts compared with the reference only inside the error-free fragment.", "4/C02"),
    "C03": ("rapid scenarios with check-free block insertion, block permutation and query panels; metamorphic equality + reference closure for queries",
            "Outcome class, failed-check count and every panel answer (with and without Authorize) must be identical with/without an aimed check-free block at any position and for every block order; query answers must equal the reference over the authority-level closure.",
            "Inserted rules are error-free (a failing rule legitimately fails authorization); reference evaluator trusted for the closure.", "4/C03"),
    "C04": ("rapid goal-directed (token, authorizer) scenarios, differential against an independent decision procedure (own least-fixpoint evaluator)",
            "Verdict class of Authorize (allow / deny / no matching policy / failed checks / evaluation error) must equal the reference for every generated scenario in the fragment, including programmatic edge shapes and reloaded tokens; class balance is measured and reported.",
            "Order-dependent scenarios (an expression errs on some bindings only) are excluded and counted; failed-check count is a soft diagnostic.", "4/C04"),
    "C05": ("rapid typed Datalog programs directly on datalog.World, differential against a naive least-fixpoint with a substitution-based matcher (set equality both ways), query panel, permuted fact order",
            "Every generated program's fact set after Run==nil must equal the reference least model exactly, every QueryRule answer must equal the reference answer, and both must be independent of fact order.",
            "Limits raised far above program size; reference matcher trusted.", "4/C05"),
    "C06": ("exhaustive operator x boundary-value table + rapid typed expression trees and raw operator sequences, differential against an independent math/big evaluator",
            "Every unary/binary operator is evaluated on every (pair of) value(s) of a 53-value boundary pool (complete enumeration, ~48k cells) and on generated type-correct trees and malformed postfix sequences; each library result must equal the value or error of an independent arbitrary-precision evaluator and must not panic.",
            "Go regexp is a shared primitive; string length asserted on ASCII only; union/intersection of differently-typed sets: totality only.", "4/C06"),
    "C07": ("rapid build/append/seal/serialize/unmarshal histories over rich content, independent protobuf decoding + specification symbol rules vs supplied content; byte-exact re-serialization; version gate on harness-signed tokens",
            "The serialized bytes, read by a decoder typed in from the published schema with its own default-symbol table and offset, must give back block for block what the callers supplied; Unmarshal must preserve every observation and authorization behaviour and re-serialize identically; blocks declaring another version must be rejected.",
            "Facts/rules compared as multisets per block; independent codec trusted.", "4/C07"),
    "C08": ("rapid operation histories (state-machine style) over a family of tokens, builders and blocks sharing ancestors; per-token model and birth snapshot, invariant after every step",
            "After every operation every live token must still show its birth observations (String, Code, Serialize, RevocationIds, reloaded String, panel outcomes) and every new token must decode, independently, to exactly what its own callers supplied.",
            "A block is appended only to the token whose CreateBlock made it. Builders are used again after Build; what a second Build holds may be everything added so far or what was added since the previous Build. One known finding (KNOWN_FINDINGS.txt, key blockbuilder-reuse: a BlockBuilder used again after Build) is reproduced by a corpus case (KNOWN-FINDING line, exit 0) and stepped around in the search.", "4/C08"),
    "C09": ("rapid goal-directed token + sealed twin + authorizer panel + 11 sealed-envelope mutations; metamorphic equality and reference chain walk",
            "Sealed token (and its reload) must verify under the same root, give the same outcome and query answers as the unsealed token for every panel member, keep its revocation ids, refuse Append and Seal; every tampered sealed envelope must be rejected in agreement with the reference.",
            "crypto/ed25519 trusted.", "4/C09"),
    "C10": ("rapid structure-aware hostile tokens (independent writer, signed by an attacker root), byte mutations and random bytes, executed in an isolated worker process; native coverage-guided fuzzing in thorough",
            "Every case runs Unmarshal and then every operation of the property in a child process; a recovered panic or the death of the child (panic on a library goroutine) is a violation; errors are the expected outcome.",
            "A worker exceeding 20 s is inconclusive; hostile programs run under small limits.", "4/C10"),
    "C11": ("rapid program classes sized against limits (blow-up, chains, calibrated heavy joins, ill-formed rules) x limit configurations x entry points; reference sizes vs sentinels; goroutine-quiescence probe",
            "Success implies the reference fixpoint; exceeding a limit implies the matching exported sentinel through NewWorld, NewVerifier, Authorizer and AuthorizerFor and in every block position; no spurious limit; after return no library goroutine stays parked in a channel send with no possible receiver.",
            "Exact boundaries not asserted; liveness decided via a safety proxy (quiescent parked sender); single late return inconclusive.", "4/C11"),
    "C12": ("rapid scenarios + presentation variants (permutation, bijective renaming, duplication, repeated Authorize); metamorphic equality of verdict and query answers",
            "Only the transformations the property lists are applied; verdict of every call and every panel answer must be equal between base and variant.",
            "Scenarios whose verdict is an evaluation error or order-dependent are excluded and counted.", "4/C12"),
    "C13": ("rapid histories of (add content, authorize/query, Reset) rounds on one authorizer with related consecutive rounds; each round compared with a fresh authorizer",
            "Every round's outcome and panel answers on the reused authorizer must equal those of a fresh authorizer given only that round's content; histories where a leak would be visible are counted as non-trivial.",
            "Compares two executions of the library; verdict correctness itself is C04's subject.", "4/C13"),
    "C14": ("rapid grammar-directed texts with random layout and explicit parenthesisation vs independently computed structure; must-error texts; token-level corruptions and native text fuzzing for panics on parse and on first use",
            "For every generated text of the documented grammar (six entry points) the parsed facts / rules / checks / policies must equal the structure the generator computed itself (own postfix emission, grouping markers, parameter substitution, dates as instants); texts the property lists as errors must be rejected; no text may make a parse function, or the first use of a parsed element, panic.",
            "Identifiers avoid the prefixes the lexer reserves (prefix, suffix, matches, length, contains, true, false, hex:); canonical decimal integers; strings without quote/backslash (line breaks allowed); time.Parse(RFC3339) shared.", "4/C14"),
    "C15": ("rapid grammar-generated blocks in the printable domain placed at every block position; print -> split -> parse = original parse (round trip through printer and parser)",
            "The text the library prints for the block (Code() for later blocks, the authority section of String() for position 0) must parse back, element by element, to exactly the structure of the original parse; String() and Code() must be identical before and after serialization and never panic.",
            "Printable domain as named by the property, without line breaks inside strings; Code() layout (one element per line outside string literals) is relied on for splitting.", "4/C15"),
    "C16": ("rapid ids x derivation histories x key maps and defaults; id preserved along the history (API and independent wire reader); lookup model",
            "RootKeyID and the serialized identifier must equal the creation identifier after every append / seal / reload; AuthorizerFor(WithRootPublicKeys) must succeed iff the model projection selects the real root key, fail with ErrNoPublicKeyAvailable iff it selects nothing, and fail otherwise when it selects a wrong key.",
            "Independent wire reader trusted.", "4/C16"),
    "C17": ("rapid derivation histories with identical block content signed repeatedly; count, prefix stability, equality with independently decoded signatures, pairwise distinctness",
            "One identifier per block, parent's identifiers are a prefix of the child's, identifier i equals the signature the independent reader finds on block i, identifiers of different signing operations differ over the whole history.",
            "Fresh randomness modelled by a non-repeating deterministic stream.", "4/C17"),
    "C18": ("rapid authorizer contents x two tokens, restored vs direct authorizer (metamorphic), refusal after evaluation, malformed snapshots written with the independent writer",
            "A fresh authorizer that loads the snapshot must behave (Authorize class, panel answers) like a fresh authorizer given the content directly; saving must fail after Authorize or Query; malformed snapshots must be refused without panic and whatever is loaded must be usable without panic.",
            "Non-empty sets only (encoder refuses empty sets by design).", "4/C18"),
    "C19": ("rapid sets of goroutine scripts over one shared token / parsed values / parser, executed 20x in a -race worker; race reports and comparison with solo runs",
            "No data race report (Go race detector, halt on first report) and every operation's canonical result equal to the same script run alone on a private copy of the token.",
            "The harness does not own the scheduler; happens-before race detection is timing-independent, wrong results without a race are only sampled.", "4/C19"),
    "C20": ("fault enumeration: every randomness-drawing operation x every fault point k<32 (plus controls) x failure kind x chunking, for generated token shapes",
            "For k<32 the operation must return an error and no token without panicking; for k>=32 the announced next key and the proof must derive from the first 32 delivered bytes and the chain must verify per the reference. The cell space is enumerated completely for each shape.",
            "ed25519.GenerateKey reads exactly 32 bytes with io.ReadFull (Go 1.23).", "4/C20"),
}

NOT_YET = "check not built yet in this session (planned in DESIGN.md section 4); not claimed until its check runs clean on the unchanged tree"


def main():
    props = [json.loads(l) for l in open(os.path.join(ROOT, "properties.jsonl")) if l.strip()]
    checks, na = [], []
    for p in props:
        pid = p["id"]
        if pid in CLAIMED:
            tech, text, note, ref = CLAIMED[pid]
            cat = "fault_enumeration" if pid == "C20" else "exploration"
            checks.append({
                "property_id": pid,
                "quick_cmd": f"./check {pid} quick",
                "thorough_cmd": f"./check {pid} thorough",
                "evidence_file": f"/verif/evidence/{pid}.json",
                "replay_cmd_template": f"./check {pid} quick --replay {{path}}",
                "engine": "props",
                "level_claimed": {"category": cat, "text": text, "design_ref": f"DESIGN.md section {ref}"},
                "level_note": note,
                "technique": tech,
            })
        else:
            na.append({"property_id": pid, "reason": NOT_YET})
    man = {
        "version": 1,
        "setup_cmd": "./setup.sh",
        "hooks": {
            "guard": "verif",
            "enable": "checks build with `go test -tags verif`; no source hook exists in /repo (public API only), so the tag currently guards nothing",
            "baseline_off_cmd": "cd /repo && GOFLAGS=-mod=mod GOPROXY=off GOSUMDB=off go test -vet=off -count=1 -timeout 25m ./...",
            "source_commits": [],
            "add_only": True,
        },
        "engines": [{
            "name": "props",
            "path": "/verif/props",
            "serves_properties": sorted(CLAIMED),
            "kind_free_text": "Go test binary (pgregory.net/rapid v1.3.0 + native go fuzzing) built from /repo's working tree by ./check; oracles in /verif/internal/ref and /verif/internal/wire share no code with the library",
        }],
        "checks": checks,
        "not_applicable": na,
        "notes": "Driver: ./check <ID> <quick|thorough> [--replay file]; exit 0 held / 1 VIOLATION / 2 inconclusive. VERIF_SEED selects the rapid seed (0 is remapped). Known findings: KNOWN_FINDINGS.txt.",
    }
    with open(os.path.join(ROOT, "MANIFEST.json"), "w") as f:
        json.dump(man, f, indent=1)
        f.write("\n")


if __name__ == "__main__":
    main()
