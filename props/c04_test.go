package props

import (
	"testing"

	"pgregory.net/rapid"

	"verif/internal/gen"
	"verif/internal/harness"
	m "verif/internal/model"
	"verif/internal/obs"
	"verif/internal/ref"
)

// C04 — the authorization verdict follows the specified decision procedure.

type C04Case struct {
	Token    m.Token `json:"token"`
	Authz    m.Authz `json:"authz"`
	RootSeed uint64  `json:"root_seed"`
	Reload   bool    `json:"reload"`
}

func checkC04(c C04Case, rec *obs.Recorder) *obs.Violation {
	want := ref.Authorize(c.Token, c.Authz)
	if want.Ambiguous || want.Diverged {
		rec.OutOfFragment()
		return nil
	}
	b, pub, err := mkToken(c.Token, c.RootSeed, c.Reload)
	if err != nil {
		return obs.Violf("%s: cannot build token: %v", scenarioText(c.Token, c.Authz), err)
	}
	got, _, err := authorizeOnce(b, pub, c.Authz, nil)
	if err != nil {
		return obs.Violf("%s: token built by the library does not verify under its root: %v", scenarioText(c.Token, c.Authz), err)
	}

	cls := want.Classes[0]
	if len(want.Classes) > 1 {
		cls = "error|checks"
	}
	rec.Label("verdict:" + cls)
	nchecks := len(c.Authz.Checks)
	for _, bl := range c.Token.Blocks {
		nchecks += len(bl.Checks)
	}
	nt := nchecks > 0 && len(c.Authz.Policies) > 0 &&
		(want.FirstQueryFailedLaterOK || want.DecidingPolicy > 0 || want.FailingCheckAndAllow || want.BlockCheckNeedsOwnRule)
	for l, on := range map[string]bool{"first-query-fails-later-ok": want.FirstQueryFailedLaterOK, "deciding-policy-not-first": want.DecidingPolicy > 0,
		"failing-check+allow-policy": want.FailingCheckAndAllow, "block-check-needs-own-rule": want.BlockCheckNeedsOwnRule,
		"reload": c.Reload, "blocks>=2": len(c.Token.Blocks) >= 3} {
		if on {
			rec.Label(l)
		}
	}
	if nt && rec.NonTrivial(c.Token.Key()+c.Authz.Key()) {
		rec.Sample(map[string]any{"scenario": scenarioText(c.Token, c.Authz), "expected": cls})
	}

	if !want.Is(got.Class) {
		return obs.Violf("%s: expected verdict %v (failed checks %d), Authorize returned %s (%s)", scenarioText(c.Token, c.Authz), want.Classes, want.FailedChecks, got.String(), got.Err)
	}
	if got.Class == ref.Checks && got.FailedChecks != want.FailedChecks {
		rec.Label("soft:failed-check-count-differs")
	}
	return nil
}

func drawC04(t *rapid.T) C04Case {
	cfg := gen.DefaultProg
	cfg.RuleErrors = true
	sc := gen.DrawScenario(t, cfg, gen.SmallProfile)
	return C04Case{Token: sc.Token, Authz: sc.Authz, RootSeed: rapid.Uint64Range(1, 1<<20).Draw(t, "root"), Reload: rapid.Bool().Draw(t, "reload")}
}

func TestC04(t *testing.T) {
	rec := obs.New("C04")
	defer rec.Flush(true)
	rec.SetExtra("rule", "rapid scenarios in the specified fragment: typed schema, authority block + 0-3 later blocks, authorizer facts/rules/checks/ordered policies, checks and policies generated goal-directed from the reference closure (satisfied / broken constant / absent predicate / false or uniformly failing expression), programmatic edge shapes (check or policy with zero queries, query with empty body), token optionally passed through Serialize/Unmarshal; oracle = reference decision procedure (own least-fixpoint evaluator). Non-trivial = at least one check and one policy and (a check whose first query fails and a later one succeeds, or the deciding policy is not the first listed, or a failing check together with a matching allow policy, or a block check that needs the block's own rule); distinct = distinct (token, authorizer) encoding.")
	rec.SetExtra("assumptions", []string{"scenarios whose result depends on expression evaluation order are outside the fragment (out_of_fragment)", "a rule that raises an expression error must make Authorize fail; the error class is not compared further", "failed-check count in the error text is a soft diagnostic only"})
	harness.RunWith(t, harness.Spec[C04Case]{ID: "C04", Draw: drawC04, Check: checkC04}, rec)
}
