package props

import (
	"fmt"
	"strings"
	"testing"
	"time"

	"github.com/biscuit-auth/biscuit-go/v2/datalog"
	"pgregory.net/rapid"

	"verif/internal/bridge"
	"verif/internal/gen"
	"verif/internal/harness"
	m "verif/internal/model"
	"verif/internal/obs"
	"verif/internal/ref"
)

// C05 — Datalog evaluation computes exactly the least fixpoint.

type C05Case struct {
	Facts   []m.Pred `json:"facts"`
	Rules   []m.Rule `json:"rules"`
	Queries []m.Rule `json:"queries"`
	Perm    []int    `json:"perm"` // second presentation of the facts
}

func (c C05Case) text() string {
	var parts []string
	for _, f := range c.Facts {
		parts = append(parts, f.Text())
	}
	for _, r := range c.Rules {
		parts = append(parts, r.Text())
	}
	for _, q := range c.Queries {
		parts = append(parts, "?- "+q.Text())
	}
	return strings.Join(parts, "; ")
}

func (c C05Case) key() string {
	var parts []string
	for _, f := range c.Facts {
		parts = append(parts, f.Key())
	}
	for _, r := range c.Rules {
		parts = append(parts, r.Key())
	}
	for _, q := range c.Queries {
		parts = append(parts, "?"+q.Key())
	}
	return strings.Join(parts, ";")
}

func bigWorld() *datalog.World {
	return datalog.NewWorld(datalog.WithMaxDuration(60*time.Second), datalog.WithMaxFacts(1000000), datalog.WithMaxIterations(100000))
}

type worldRun struct {
	err     error
	facts   []m.Pred
	queries []string // canonical key per query
}

func runWorld(facts []m.Pred, rules []m.Rule, queries []m.Rule) (wr worldRun, lerr error) {
	syms := &datalog.SymbolTable{}
	w := bigWorld()
	for _, f := range facts {
		w.AddFact(datalog.Fact{Predicate: bridge.DLPred(f, syms)})
	}
	for _, r := range rules {
		w.AddRule(bridge.DLRule(r, syms))
	}
	wr.err = w.Run(syms)
	if wr.err != nil {
		return wr, nil
	}
	wr.facts, lerr = bridge.LiftDLFacts(w.Facts(), syms)
	if lerr != nil {
		return wr, lerr
	}
	for _, q := range queries {
		res := w.QueryRule(bridge.DLRule(q, syms), syms)
		ps, err := bridge.LiftDLFacts(res, syms)
		if err != nil {
			return wr, err
		}
		wr.queries = append(wr.queries, m.FactSetKey(ps))
	}
	return wr, nil
}

func diffSets(want, got []m.Pred) string {
	ws, gs := map[string]m.Pred{}, map[string]m.Pred{}
	for _, f := range want {
		ws[f.Key()] = f
	}
	for _, f := range got {
		gs[f.Key()] = f
	}
	var missing, extra []string
	for k, f := range ws {
		if _, ok := gs[k]; !ok {
			missing = append(missing, f.Text())
		}
	}
	for k, f := range gs {
		if _, ok := ws[k]; !ok {
			extra = append(extra, f.Text())
		}
	}
	if len(missing) == 0 && len(extra) == 0 {
		if len(got) != len(gs) {
			return fmt.Sprintf("duplicate facts in the result (%d entries, %d distinct)", len(got), len(gs))
		}
		return ""
	}
	sortStrings(missing)
	sortStrings(extra)
	return fmt.Sprintf("missing %v, unexpected %v", missing, extra)
}

func checkC05(c C05Case, rec *obs.Recorder) *obs.Violation {
	want := ref.LFP(c.Facts, c.Rules)
	if want.Ambiguous || want.Diverged {
		rec.OutOfFragment()
		return nil
	}
	got, lerr := runWorld(c.Facts, c.Rules, c.Queries)
	if lerr != nil {
		return obs.Violf("program [%s]: result cannot be read back: %v", c.text(), lerr)
	}

	// labels and non-triviality
	join, repeated, carry, selfjoin, zero, constBody := false, false, false, false, false, false
	for _, r := range c.Rules {
		seen := map[string]int{}
		names := map[string]int{}
		for _, p := range r.Body {
			names[p.Name]++
			local := map[string]bool{}
			if len(p.Terms) == 0 {
				zero = true
			}
			for _, t := range p.Terms {
				if t.K == m.KVar {
					if local[t.S] {
						repeated = true
					}
					local[t.S] = true
				} else {
					constBody = true
				}
			}
			for v := range local {
				seen[v]++
			}
		}
		for _, n := range seen {
			if n >= 2 {
				join = true
			}
		}
		for _, n := range names {
			if n >= 2 {
				selfjoin = true
			}
		}
		if len(r.Body) >= 3 {
			carry = true
		}
	}
	grew := want.Facts.Len() > len(bridge.DedupFacts(c.Facts))
	for l, b := range map[string]bool{"join": join, "repeated-var": repeated, "carry>=3": carry, "self-join": selfjoin,
		"zero-arity": zero, "const-in-body": constBody, "grew": grew, "rounds>=2": want.Rounds >= 2, "rule-error": want.RuleError} {
		if b {
			rec.Label(l)
		}
	}
	if grew && (join || repeated || want.Rounds >= 2) {
		if rec.NonTrivial(c.key()) {
			rec.Sample(map[string]any{"program": c.text(), "fixpoint_size": want.Facts.Len(), "rounds": want.Rounds})
		}
	}

	if want.RuleError {
		if got.err == nil {
			return obs.Violf("program [%s]: a rule raises an error on a matching binding, Run returned nil", c.text())
		}
		return nil
	}
	if got.err != nil {
		return obs.Violf("program [%s]: reference reaches the fixpoint (%d facts, %d rounds), Run returned %v", c.text(), want.Facts.Len(), want.Rounds, got.err)
	}
	if d := diffSets(want.Facts.List(), got.facts); d != "" {
		return obs.Violf("program [%s]: fixpoint differs: %s", c.text(), d)
	}
	closure := want.Facts.List()
	for i, q := range c.Queries {
		a := ref.Query(q, closure)
		if a.Ambiguous() || a.Invalid {
			continue
		}
		if k := m.FactSetKey(a.Facts); k != got.queries[i] {
			return obs.Violf("program [%s]: query %s: expected {%s}, got {%s}", c.text(), q.Text(), k, got.queries[i])
		}
	}
	// second presentation: same facts in another order
	if len(c.Perm) == len(c.Facts) && len(c.Facts) > 1 {
		pf := make([]m.Pred, len(c.Facts))
		for i, j := range c.Perm {
			pf[i] = c.Facts[j]
		}
		got2, lerr := runWorld(pf, c.Rules, c.Queries)
		if lerr != nil || got2.err != nil {
			return obs.Violf("program [%s] with facts permuted %v: err=%v lift=%v", c.text(), c.Perm, got2.err, lerr)
		}
		if d := diffSets(want.Facts.List(), got2.facts); d != "" {
			return obs.Violf("program [%s] with facts permuted %v: fixpoint differs: %s", c.text(), c.Perm, d)
		}
		for i := range c.Queries {
			if got2.queries[i] != got.queries[i] {
				return obs.Violf("program [%s]: query %d differs between fact orders", c.text(), i)
			}
		}
	}
	return nil
}

func drawC05(t *rapid.T) C05Case {
	p := gen.SmallProfile
	p.SmallInts = []int64{0, 1, 2, 3}
	p.Strs = []string{"a", "b", "read", "file1"}
	var c C05Case
	switch rapid.IntRange(0, 9).Draw(t, "shape") {
	case 0:
		// chain + recursion, depth up to 6
		n := rapid.IntRange(2, 6).Draw(t, "chain")
		for i := 0; i < n; i++ {
			c.Facts = append(c.Facts, m.P("edge", m.Int(int64(i)), m.Int(int64(i+1))))
		}
		c.Facts = append(c.Facts, m.P("noise", m.Str("a")), m.P("edge", m.Str("a"), m.Int(0)))
		x, y, z := m.Var("x"), m.Var("y"), m.Var("z")
		c.Rules = []m.Rule{{Head: m.P("reach", x, y), Body: []m.Pred{m.P("edge", x, y)}}}
		if rapid.Bool().Draw(t, "leftrec") {
			c.Rules = append(c.Rules, m.Rule{Head: m.P("reach", x, z), Body: []m.Pred{m.P("reach", x, y), m.P("edge", y, z)}})
		} else {
			c.Rules = append(c.Rules, m.Rule{Head: m.P("reach", x, z), Body: []m.Pred{m.P("edge", x, y), m.P("reach", y, z)}})
		}
		if rapid.Bool().Draw(t, "mutual") {
			c.Rules = append(c.Rules,
				m.Rule{Head: m.P("even", m.Int(0))},
				m.Rule{Head: m.P("odd", y), Body: []m.Pred{m.P("even", x), m.P("edge", x, y)}},
				m.Rule{Head: m.P("even", y), Body: []m.Pred{m.P("odd", x), m.P("edge", x, y)}})
			c.Rules[2].Exprs = []*m.Expr{m.Bin("==", m.V(m.Int(1)), m.V(m.Int(1)))}
		}
		c.Queries = []m.Rule{{Head: m.P("q", x), Body: []m.Pred{m.P("reach", m.Int(0), x)}},
			{Head: m.P("q", x, y), Body: []m.Pred{m.P("reach", x, y), m.P("reach", y, x)}}}
	default:
		s := gen.DrawSchema(t, p, 1, 4)
		c.Facts = s.DrawFacts(t, 1, 12)
		cfg := gen.RuleCfg{MaxBody: 3, MaxExprs: 2, ExprDepth: 3}
		if rapid.IntRange(0, 5).Draw(t, "wide") == 0 {
			cfg.MaxBody = 4
		}
		rules := s.DrawRules(t, 1, 5, cfg)
		if rapid.IntRange(0, 19).Draw(t, "ruleerr") == 0 {
			r := s.DrawRule(t, cfg)
			r.Exprs = []*m.Expr{gen.UniformFail(t)}
			rules = append(rules, r)
		}
		// keep the closure small: the enumerator is O(facts^body)
		for {
			r := ref.LFP(c.Facts, rules)
			if (r.Facts.Len() <= 36 && !r.Diverged) || len(rules) == 0 {
				break
			}
			rules = rules[:len(rules)-1]
		}
		c.Rules = rules
		closure := ref.LFP(c.Facts, rules).Facts.List()
		nq := rapid.IntRange(0, 3).Draw(t, "nq")
		for i := 0; i < nq; i++ {
			c.Queries = append(c.Queries, s.DrawPanelQuery(t, closure))
		}
	}
	c.Perm = rapid.Permutation(seqInts(len(c.Facts))).Draw(t, "perm")
	return c
}

func TestC05(t *testing.T) {
	rec := obs.New("C05")
	defer rec.Flush(true)
	rec.SetExtra("rule", "rapid typed Datalog programs run directly on datalog.World (1-12 facts of several predicates in drawn order, 1-5 range-restricted rules with bodies of 1-4 predicates, joins, repeated variables, self-joins, constants of all types in body positions, zero arity, expression filters; plus chain/recursion/mutual-recursion shapes up to depth 6); oracle = naive least fixpoint with a substitution-based matcher, set equality both ways, query panel, and a second presentation with the facts permuted. Non-trivial = the fixpoint is strictly larger than the input and the program has a join, a repeated variable or needs >= 2 rounds; distinct = distinct canonical program encoding.")
	rec.SetExtra("assumptions", []string{"limits raised (60 s, 10^6 facts) so that no generated program is near a limit; limit behaviour is C11's subject", "programs whose result depends on expression evaluation order (an expression errs on some bindings only) are outside the fragment and counted as out_of_fragment"})
	harness.RunWith(t, harness.Spec[C05Case]{ID: "C05", Draw: drawC05, Check: checkC05}, rec)
}
