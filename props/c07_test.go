package props

import (
	"bytes"
	"fmt"
	"strings"
	"testing"

	biscuit "github.com/biscuit-auth/biscuit-go/v2"
	"github.com/biscuit-auth/biscuit-go/v2/datalog"
	"pgregory.net/rapid"

	"verif/internal/bridge"
	"verif/internal/gen"
	"verif/internal/harness"
	m "verif/internal/model"
	"verif/internal/obs"
	"verif/internal/ref"
	"verif/internal/wire"
)

// C07 — wire fidelity: bytes carry exactly the caller's Datalog and round-trip intact.

type C07Case struct {
	Spec    TokSpec   `json:"spec"`
	Panel   []m.Authz `json:"panel"`
	Other   TokSpec   `json:"other"` // a second, unrelated token (decoded by the same Unmarshaler first)
	Gate    string    `json:"gate"` // version declared by one block of a wire-built token: absent | 0 | 2 | 3 | 4 | max
	GatePos int       `json:"gate_pos"`
}

// richProfile: every term type, all default symbols, odd strings.
func richProfile() gen.Profile {
	p := gen.SmallProfile
	p.Strs = append([]string{"a", "b", "file1", "x1", "", "a b", "café", "quote\"d", "back\\slash", "line\nbreak", "x", "y", "0"}, gen.DefaultSymbols...)
	p.SmallInts = []int64{0, 1, 2, -1, 5, 1 << 40, -(1 << 62), 9223372036854775807, -9223372036854775808}
	p.Dates = []uint64{0, 1, 1700000000, 1 << 32, 253402300799}
	p.KeepDups = true // the bytes carry the caller's set as written, repeated elements included
	return p
}

// looseKey over-approximates the builders' notion of "the same fact": the library compares two
// sets by length and one-directional membership, so with repeated elements [0,0,0] equals [0,1,2].
// Facts that agree everywhere except in sets of the same length are treated as one.
func looseKey(p m.Pred) string {
	q := m.Pred{Name: p.Name}
	for _, t := range p.Terms {
		if t.K == m.KSet {
			t = m.Str(fmt.Sprintf("set of %d", len(t.Set)))
		}
		q.Terms = append(q.Terms, t)
	}
	return q.Key()
}

func drawRichBlock(t *rapid.T, s gen.Schema) m.Block {
	b := m.Block{}
	seenFact := map[string]bool{}
	for _, f := range s.DrawFacts(t, 0, 4) {
		// builders refuse a fact they already hold
		if k := looseKey(f); !seenFact[k] {
			seenFact[k] = true
			b.Facts = append(b.Facts, f)
		}
	}
	cfg := gen.RuleCfg{MaxBody: 3, MaxExprs: 2, ExprDepth: 4}
	b.Rules = s.DrawRules(t, 0, 2, cfg)
	nc := rapid.IntRange(0, 2).Draw(t, "nchecks")
	for i := 0; i < nc; i++ {
		var c m.Check
		nq := rapid.IntRange(1, 2).Draw(t, "nq")
		for j := 0; j < nq; j++ {
			r := s.DrawRule(t, cfg)
			r.Head = gen.QueryHead
			c.Queries = append(c.Queries, r)
		}
		b.Checks = append(b.Checks, c)
	}
	if rapid.Bool().Draw(t, "ctx") {
		b.Context = rapid.SampledFrom([]string{"ctx", "read", "café \"x\"", "a\nb"}).Draw(t, "ctxv")
	}
	return b
}

func usesExprOrSet(b m.Block) bool {
	has := false
	var term func(t m.Term)
	term = func(t m.Term) {
		if t.K == m.KSet {
			has = true
		}
	}
	pred := func(p m.Pred) {
		for _, t := range p.Terms {
			term(t)
		}
	}
	rule := func(r m.Rule) {
		pred(r.Head)
		for _, p := range r.Body {
			pred(p)
		}
		if len(r.Exprs) > 0 {
			has = true
		}
	}
	for _, f := range b.Facts {
		pred(f)
	}
	for _, r := range b.Rules {
		rule(r)
	}
	for _, c := range b.Checks {
		for _, q := range c.Queries {
			rule(q)
		}
	}
	return has
}

func isDefaultSymbol(s string) bool {
	for _, d := range wire.DefaultSymbols {
		if d == s {
			return true
		}
	}
	return false
}

// decodeContent decodes a serialized token with the independent reader and
// resolves every block with the symbol rules of the specification.
func decodeContent(ser []byte) (*wire.Biscuit, []m.PBlock, error) {
	env, err := wire.DecodeBiscuit(ser)
	if err != nil {
		return nil, nil, err
	}
	table := &wire.Table{}
	var out []m.PBlock
	for i, sb := range env.All() {
		blk, err := wire.DecodeBlock(sb.Block)
		if err != nil {
			return env, nil, fmt.Errorf("block %d: %w", i, err)
		}
		for _, s := range blk.Symbols {
			if isDefaultSymbol(s) {
				return env, nil, fmt.Errorf("block %d declares the default symbol %q", i, s)
			}
			if _, ok := table.Index(s); ok {
				return env, nil, fmt.Errorf("block %d declares %q, which an earlier table (or itself) already holds", i, s)
			}
			table.Syms = append(table.Syms, s)
		}
		pb, err := table.Resolve(blk)
		if err != nil {
			return env, nil, fmt.Errorf("block %d: %w", i, err)
		}
		out = append(out, pb)
	}
	return env, out, nil
}

func checkC07(c C07Case, rec *obs.Recorder) *obs.Violation {
	tok, stages, pub, err := c.Spec.build()
	if err != nil {
		return obs.Violf("cannot build %s: %v", m.Token{Blocks: c.Spec.Blocks}.Text(), err)
	}
	// forks are part of "all build / append / seal / serialize sequences": two tokens appended
	// to one stage must each carry their own block and leave every other token's bytes alone
	if msg := forkAndRecheck(stages, pub, c.Spec.RngKey+9, c.Spec.Blocks[len(c.Spec.Blocks)-1], c.GatePos); msg != "" {
		return obs.ViolK("fork", "token %s: %s", m.Token{Blocks: c.Spec.Blocks}.Text(), msg)
	}
	ser, err := tok.Serialize()
	if err != nil {
		return obs.Violf("serialize: %v", err)
	}
	desc := m.Token{Blocks: c.Spec.Blocks}.Text()

	// (1) independent decoding equals what the callers supplied
	env, got, err := decodeContent(ser)
	if err != nil {
		return obs.Violf("token %s: independent decoding fails: %v", desc, err)
	}
	if len(got) != len(c.Spec.Blocks) {
		return obs.Violf("token %s: %d blocks supplied, %d on the wire", desc, len(c.Spec.Blocks), len(got))
	}
	fresh, shared := false, false
	seenSym := map[string]int{}
	for i, b := range c.Spec.Blocks {
		want := b.Postfix()
		if got[i].Version != 3 {
			return obs.Violf("token %s: block %d declares version %d", desc, i, got[i].Version)
		}
		if want.ContentKey() != got[i].ContentKey() {
			return obs.Violf("token %s: block %d decodes to\n  %s\nbut the caller supplied\n  %s", desc, i, got[i].ContentKey(), want.ContentKey())
		}
		if len(got[i].Symbols) > 0 {
			fresh = true
		}
		for _, s := range blockStrings(b) {
			if j, ok := seenSym[s]; ok && j < i && !isDefaultSymbol(s) {
				shared = true
			}
			if _, ok := seenSym[s]; !ok {
				seenSym[s] = i
			}
		}
	}
	if !sameID(env.RootKeyID, c.Spec.KeyID) {
		return obs.Violf("token %s: root key id on the wire is %s, supplied %s", desc, idText(env.RootKeyID), idText(c.Spec.KeyID))
	}

	// (2) unmarshal: same observations, same behaviour, byte-identical re-serialization
	buf := append([]byte{}, ser...)
	re, err := biscuit.Unmarshal(buf)
	if err != nil {
		return obs.Violf("token %s: Unmarshal of its own serialization fails: %v", desc, err)
	}
	// the input buffer belongs to the caller, who reuses it: the token must not depend on it
	for i := range buf {
		buf[i] = 0x55
	}
	ser2, err := re.Serialize()
	if err != nil || !bytes.Equal(ser, ser2) {
		return obs.Violf("token %s: re-serialization differs (err=%v, %d vs %d bytes)", desc, err, len(ser), len(ser2))
	}
	if a, b := tok.String(), re.String(); a != b {
		return obs.ViolK("string-differs", "token %s: String() differs after unmarshal:\n%s\nvs\n%s", desc, a, b)
	}
	if !sameID(tok.RootKeyID(), re.RootKeyID()) || !sameID(re.RootKeyID(), c.Spec.KeyID) {
		return obs.Violf("token %s: RootKeyID differs after unmarshal", desc)
	}
	if tok.BlockCount() != re.BlockCount() || re.BlockCount() != len(c.Spec.Blocks)-1 {
		return obs.Violf("token %s: BlockCount %d / %d", desc, tok.BlockCount(), re.BlockCount())
	}
	ra, rb := tok.RevocationIds(), re.RevocationIds()
	if len(ra) != len(rb) {
		return obs.Violf("token %s: revocation ids differ in number after unmarshal", desc)
	}
	for i := range ra {
		if !bytes.Equal(ra[i], rb[i]) {
			return obs.Violf("token %s: revocation id %d differs after unmarshal", desc, i)
		}
	}
	if tok.GetContext() != re.GetContext() || re.GetContext() != c.Spec.Blocks[0].Context {
		return obs.Violf("token %s: context %q / %q", desc, tok.GetContext(), re.GetContext())
	}
	// content accessors: the checks of every block, and the block in which a fact is first found
	firstBlock := map[string]int{}
	for i, b := range c.Spec.Blocks {
		for _, f := range b.Facts {
			if _, ok := firstBlock[f.Key()]; !ok {
				firstBlock[f.Key()] = i
			}
		}
	}
	for which, tk := range map[string]*biscuit.Biscuit{"built": tok, "unmarshalled": re} {
		chk := tk.Checks()
		if len(chk) != len(c.Spec.Blocks) {
			return obs.ViolK("accessors", "token %s (%s): Checks() has %d entries for %d blocks", desc, which, len(chk), len(c.Spec.Blocks))
		}
		for i, b := range c.Spec.Blocks {
			if len(chk[i]) != len(b.Checks) {
				return obs.ViolK("accessors", "token %s (%s): Checks()[%d] has %d checks, the caller supplied %d", desc, which, i, len(chk[i]), len(b.Checks))
			}
			for j, ch := range b.Checks {
				if len(chk[i][j].Queries) != len(ch.Queries) {
					return obs.ViolK("accessors", "token %s (%s): check %d of block %d has %d queries, the caller supplied %d", desc, which, j, i, len(chk[i][j].Queries), len(ch.Queries))
				}
			}
			for _, f := range b.Facts {
				if hasDupSet(f) {
					continue
				}
				got, err := tk.GetBlockID(bridge.ToFact(f))
				if err != nil || got != firstBlock[f.Key()] {
					return obs.ViolK("accessors", "token %s (%s): GetBlockID(%s) = %d, %v; the first block holding that fact is %d", desc, which, f.Text(), got, err, firstBlock[f.Key()])
				}
			}
		}
	}
	// one Unmarshaler value used for several tokens decodes each as if it were the only one
	if len(c.Other.Blocks) > 0 {
		other, _, _, err := c.Other.build()
		if err != nil {
			return obs.Violf("cannot build the second token: %v", err)
		}
		oser, err := other.Serialize()
		if err != nil {
			return obs.Violf("serialize second token: %v", err)
		}
		st := datalog.SymbolTable{}
		u := &biscuit.Unmarshaler{Symbols: &st}
		if _, err := u.Unmarshal(oser); err != nil {
			return obs.Violf("Unmarshaler rejects a token produced by the library: %v", err)
		}
		again, err := u.Unmarshal(ser)
		if err != nil {
			return obs.Violf("token %s: the same Unmarshaler, after decoding another token, rejects it: %v", desc, err)
		}
		if len(st) != 0 {
			return obs.ViolK("unmarshaler-reuse", "token %s: Unmarshaler.Unmarshal modified the caller's base symbol table: %q", desc, []string(st))
		}
		if a, b := again.String(), re.String(); a != b {
			return obs.ViolK("unmarshaler-reuse", "token %s: decoded by an Unmarshaler that had decoded %s before, it reads\n%s\ninstead of\n%s", desc, m.Token{Blocks: c.Other.Blocks}.Text(), a, b)
		}
		for _, az := range c.Panel {
			o1, _, e1 := authorizeOnce(re, pub, az, nil)
			o2, _, e2 := authorizeOnce(again, pub, az, nil)
			if (e1 == nil) != (e2 == nil) || o1.Class != o2.Class {
				return obs.ViolK("unmarshaler-reuse", "token %s: outcome %s when decoded alone, %s when decoded by a reused Unmarshaler", desc, o1, o2)
			}
		}
	}
	for i, az := range c.Panel {
		o1, _, e1 := authorizeOnce(tok, pub, az, nil)
		o2, _, e2 := authorizeOnce(re, pub, az, nil)
		if (e1 == nil) != (e2 == nil) || o1.Class != o2.Class {
			return obs.Violf("token %s, authorizer {%s}: outcome %s (%v) before and %s (%v) after unmarshal", desc, az.Text(), o1, e1, o2, e2)
		}
		_ = i
	}

	// content the format cannot carry (an empty set has no element type to write) is refused by
	// Build; it is never written as something else
	{
		bad := m.Block{Facts: append(append([]m.Pred{}, c.Spec.Blocks[0].Facts...), m.P("c07_unencodable", m.Term{K: m.KSet}, m.Int(int64(c.GatePos))))}
		if c.GatePos%2 == 1 {
			bad.Facts[len(bad.Facts)-1] = m.P("c07_unencodable", m.Int(int64(c.GatePos)), m.Term{K: m.KSet})
		}
		_, bpriv := bridge.RootKey(c.Spec.RootSeed)
		if tb, err := bridge.BuildAuthority(bpriv, bridge.NewDetRand(c.Spec.RngKey+77), bad, nil); err == nil {
			bser, _ := tb.Serialize()
			_, bgot, derr := decodeContent(bser)
			if derr != nil || len(bgot) != 1 || bgot[0].ContentKey() != bad.Postfix().ContentKey() {
				return obs.ViolK("unencodable", "Build accepted the authority content {%s} (an empty set), but the bytes do not carry it (independent decoding: %v)", bad.Text(), derr)
			}
		}
	}

	// (3) version gate, on a token signed by this package's own writer
	enc := encodeBlocksVersion(c.Spec.Blocks, c.GatePos%len(c.Spec.Blocks), c.Gate)
	_, priv := bridge.RootKey(c.Spec.RootSeed)
	wtok := wireChain(priv, c.Spec.RngKey, enc, c.Spec.Sealed).Encode()
	_, uerr := biscuit.Unmarshal(wtok)
	rec.Label("gate:" + c.Gate)
	if c.Gate == "3" {
		if uerr != nil {
			return obs.Violf("token %s written by the independent writer (all blocks version 3) is rejected: %v", desc, uerr)
		}
		if ok, _, _, detail, _ := libAccepts(wtok, pub); !ok {
			return obs.Violf("token %s written and signed by the independent writer is not accepted under its root: %s", desc, detail)
		}
		if r := ref.VerifyChain(wtok, pub); !r.OK {
			return obs.Violf("harness: own chain does not verify: %s", r.Reason)
		}
	} else if uerr == nil {
		return obs.Violf("token %s with block %d declaring version %s is accepted by Unmarshal", desc, c.GatePos%len(c.Spec.Blocks), c.Gate)
	}

	nt := fresh && anyBlock(c.Spec.Blocks, usesExprOrSet) && (shared || len(c.Spec.Blocks) >= 2)
	if nt && rec.NonTrivial(desc) {
		rec.Sample(map[string]any{"token": desc, "sealed": c.Spec.Sealed, "key_id": idText(c.Spec.KeyID), "bytes": len(ser), "gate": c.Gate})
	}
	for l, on := range map[string]bool{"fresh-symbols": fresh, "shared-symbol-across-blocks": shared, "sealed": c.Spec.Sealed, "blocks>=3": len(c.Spec.Blocks) >= 3} {
		if on {
			rec.Label(l)
		}
	}
	return nil
}

func anyBlock(bs []m.Block, f func(m.Block) bool) bool {
	for _, b := range bs {
		if f(b) {
			return true
		}
	}
	return false
}

// blockStrings lists every string, predicate name and variable name of a block.
func blockStrings(b m.Block) []string {
	var out []string
	var term func(t m.Term)
	term = func(t m.Term) {
		switch t.K {
		case m.KStr, m.KVar:
			out = append(out, t.S)
		case m.KSet:
			for _, e := range t.Set {
				term(e)
			}
		}
	}
	pred := func(p m.Pred) {
		out = append(out, p.Name)
		for _, t := range p.Terms {
			term(t)
		}
	}
	rule := func(r m.Rule) {
		pred(r.Head)
		for _, p := range r.Body {
			pred(p)
		}
		for _, e := range r.Exprs {
			for _, o := range e.Postfix() {
				if o.Kind == "val" {
					term(*o.Val)
				}
			}
		}
	}
	for _, f := range b.Facts {
		pred(f)
	}
	for _, r := range b.Rules {
		rule(r)
	}
	for _, c := range b.Checks {
		for _, q := range c.Queries {
			rule(q)
		}
	}
	return out
}

// encodeBlocksVersion encodes blocks with the independent writer; block pos declares the given version.
func encodeBlocksVersion(blocks []m.Block, pos int, gate string) [][]byte {
	in := &wire.Interner{T: &wire.Table{}}
	var out [][]byte
	for i, b := range blocks {
		wb := in.Block(b.Postfix())
		if i == pos {
			switch gate {
			case "absent":
				wb.Version = nil
			case "3":
			default:
				var v uint32
				switch gate {
				case "0":
					v = 0
				case "1":
					v = 1
				case "2":
					v = 2
				case "4":
					v = 4
				case "max":
					v = 1<<32 - 1
				}
				wb.Version = &v
			}
		}
		out = append(out, wb.Encode())
	}
	return out
}

func drawC07(t *rapid.T) C07Case {
	s := gen.DrawSchema(t, richProfile(), 2, 5)
	c := C07Case{Spec: TokSpec{RootSeed: rapid.Uint64Range(1, 1<<16).Draw(t, "root"), RngKey: rapid.Uint64Range(1, 1<<32).Draw(t, "rng")}}
	n := rapid.IntRange(0, 3).Draw(t, "nlater")
	for i := 0; i <= n; i++ {
		c.Spec.Blocks = append(c.Spec.Blocks, drawRichBlock(t, s))
	}
	c.Spec.Sealed = rapid.IntRange(0, 3).Draw(t, "sealed") == 0
	if rapid.Bool().Draw(t, "haskeyid") {
		id := rapid.SampledFrom([]uint32{0, 1, 1 << 31, 1<<32 - 1}).Draw(t, "keyid")
		c.Spec.KeyID = &id
	}
	small := gen.DrawSchema(t, gen.SmallProfile, 1, 3)
	_ = small
	closure := ref.LFP(c.Spec.Blocks[0].Facts, nil).Facts.List()
	for i := 0; i < 3; i++ {
		az := m.Authz{Facts: s.DrawFacts(t, 0, 2)}
		az.Checks = s.DrawChecks(t, closure, 0, 1, gen.CheckCfg{PSat: 80, MaxQueries: 2})
		az.Policies = []m.Policy{s.DrawPolicy(t, closure, 70), {Allow: rapid.Bool().Draw(t, "fallback"), Queries: []m.Rule{{Head: m.Pred{Name: "policy"}}}}}
		c.Panel = append(c.Panel, az)
	}
	c.Other = TokSpec{RootSeed: c.Spec.RootSeed + 1, RngKey: c.Spec.RngKey + 1, Blocks: []m.Block{drawRichBlock(t, s)}}
	if rapid.Bool().Draw(t, "other.later") {
		c.Other.Blocks = append(c.Other.Blocks, drawRichBlock(t, s))
	}
	c.Gate = rapid.SampledFrom([]string{"3", "3", "absent", "0", "1", "2", "4", "max"}).Draw(t, "gate")
	c.GatePos = rapid.IntRange(0, 3).Draw(t, "gatepos")
	return c
}

func TestC07(t *testing.T) {
	rec := obs.New("C07")
	defer rec.Flush(true)
	rec.SetExtra("rule", "rapid histories build / append x(0-3) / seal? / serialize / unmarshal over blocks with every term type (64-bit boundary integers, unicode and quoted strings, dates, byte arrays, booleans, sets, half of them as the caller wrote them: unsorted, possibly repeating an element), expressions of depth <= 4 over all operators with explicit parentheses, all 28 default symbols and fresh symbols shared across blocks, contexts, root key ids. Oracle (1): the independent reader + the specification's symbol rules give back, block for block, the supplied content, version 3, tables of new symbols only; (2) Unmarshal: same String / RevocationIds / RootKeyID / BlockCount / context / Checks() shape / GetBlockID of every supplied fact (first block holding it), same outcome on a panel of 3 generated authorizers, byte-identical re-serialization, also after the buffer handed to Unmarshal has been overwritten; two tokens appended to one drawn stage leave every earlier token's bytes unchanged and carry their own block; an Unmarshaler value that has decoded another token decodes this one exactly like a fresh one and leaves the caller's base table alone; content with an empty set (first or last position of a fact) is refused by Build or carried by the bytes; (3) a token written and signed by the independent writer is accepted when all blocks declare version 3 and rejected when one declares absent/0/1/2/4/2^32-1. Non-trivial = a fresh symbol, an expression or a set, and two blocks (or a symbol shared between blocks); distinct by token content.")
	rec.SetExtra("assumptions", []string{"facts and rules are compared as multisets per block, checks / queries / bodies / operator sequences in order", "the independent codec is typed in from the published schema"})
	_ = strings.Join
	harness.RunWith(t, harness.Spec[C07Case]{ID: "C07", Draw: drawC07, Check: checkC07}, rec)
}

// hasDupSet reports whether a term of p is a set that repeats an element (the
// library compares such sets by membership, the model by multiset).
func hasDupSet(p m.Pred) bool {
	for _, t := range p.Terms {
		if t.K == m.KSet {
			seen := map[string]bool{}
			for _, e := range t.Set {
				if seen[e.Key()] {
					return true
				}
				seen[e.Key()] = true
			}
		}
	}
	return false
}
