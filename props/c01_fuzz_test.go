package props

import (
	"testing"

	"verif/internal/bridge"
	m "verif/internal/model"
	"verif/internal/ref"
)

// FuzzC01Bytes: native coverage-guided fuzzing of serialized tokens (thorough tier only).
// Arbitrary bytes can make two protobuf decoders disagree on corner cases, so only the
// soundness direction is asserted: whatever the library accepts under the root key K,
// its own canonical re-serialization must verify under K per the reference chain walk.
func FuzzC01Bytes(f *testing.F) {
	pub, priv := bridge.RootKey(7)
	blocks := []m.Block{
		{Facts: []m.Pred{m.P("right", m.Str("file1"), m.Str("read")), m.P("user", m.Int(42))},
			Checks: []m.Check{{Queries: []m.Rule{{Head: m.Pred{Name: "query"}, Body: []m.Pred{m.P("resource", m.Var("r"))}}}}}},
		{Facts: []m.Pred{m.P("extra", m.Bytes([]byte{1, 2}), m.Bool(true))}},
		{Checks: []m.Check{{Queries: []m.Rule{{Head: m.Pred{Name: "query"}, Body: []m.Pred{m.P("operation", m.Str("read"))}}}}}},
	}
	for n := 1; n <= len(blocks); n++ {
		for _, sealed := range []bool{false, true} {
			spec := TokSpec{RootSeed: 7, RngKey: uint64(10*n + 1), Blocks: blocks[:n], Sealed: sealed}
			tok, _, _, err := spec.build()
			if err != nil {
				f.Fatal(err)
			}
			ser, _ := tok.Serialize()
			f.Add(ser)
			// the same chain signed by the harness's own signer
			f.Add(wireChain(priv, uint64(n), encodeBlocks(blocks[:n]), sealed).Encode())
		}
	}
	f.Fuzz(func(t *testing.T, data []byte) {
		ok, _, reser, detail, pan := libAccepts(data, pub)
		if pan != nil {
			t.Fatalf("panic: %v (%s)", pan, detail)
		}
		if !ok {
			return
		}
		if r := ref.VerifyChain(data, pub); r.OK {
			return
		}
		if r := ref.VerifyChain(reser, pub); !r.OK {
			t.Fatalf("library accepts %d bytes under the root key, the reference rejects the bytes and the library's re-serialization: %s", len(data), r.Reason)
		}
	})
}
