package props

import (
	"bytes"
	"crypto/ed25519"
	"fmt"
	"strings"
	"testing"

	biscuit "github.com/biscuit-auth/biscuit-go/v2"
	"github.com/biscuit-auth/biscuit-go/v2/datalog"
	"pgregory.net/rapid"

	"verif/internal/bridge"
	"verif/internal/harness"
	m "verif/internal/model"
	"verif/internal/obs"
	"verif/internal/ref"
)

// C08 — tokens and blocks are immutable values; sibling derivations are independent.

type C08Op struct {
	Op   string `json:"op"`
	A    int    `json:"a"`    // token / builder / block index (modulo the live count)
	N    int    `json:"n"`    // how many fresh symbols the action introduces
	Kind int    `json:"kind"` // what is added to a builder: 0 fact, 1 rule, 2 check
}

type C08Case struct {
	RootSeed uint64  `json:"root_seed"`
	Ops      []C08Op `json:"ops"`
	// Strict: report the known finding "blockbuilder-reuse" (KNOWN_FINDINGS.txt) instead of stepping
	// around it; set by the committed corpus case that reproduces it, never by the generator
	Strict bool `json:"strict,omitempty"`
}

type c08Snap struct {
	str, reloadedStr string
	ser              []byte
	revs             [][]byte
	panel            []string
	code             string
}

type c08Tok struct {
	tok    *biscuit.Biscuit
	model  []m.Block
	snap   c08Snap
	born   string
	sealed bool
}

type c08Counts struct{ Facts, Rules, Checks int }

// nfacts: the facts an authorizer sees at authority level before any rule runs (the authority block's)
func nfacts(model []m.Block) int {
	if len(model) == 0 {
		return 0
	}
	return len(model[0].Facts)
}

type c08Builder struct {
	bb      biscuit.BlockBuilder
	parent  int
	content m.Block
	built   int       // how many times Build was called on it
	atBuild c08Counts // how much of content the previous Build already held
}

type c08Block struct {
	blk     *biscuit.Block
	parent  int
	content m.Block
	since   m.Block // what was added to the builder after its previous Build
	reused  bool    // returned by a second or later Build of its builder
}

// fresh content: every action uses symbols nobody else uses
func c08Fact(tag string, i int) m.Pred { return m.P(fmt.Sprintf("f_%s_%d", tag, i), m.Str(fmt.Sprintf("s_%s_%d", tag, i))) }
func c08Check(tag string, i int) m.Check {
	return m.Check{Queries: []m.Rule{{Head: m.Pred{Name: "query"}, Body: []m.Pred{m.P(fmt.Sprintf("g_%s_%d", tag, i), m.Str(fmt.Sprintf("t_%s_%d", tag, i)))}}}}
}
// c08ConcatPair: evaluating the rule concatenates two strings (the evaluator interns the result
// somewhere: not in the token's table)
func c08ConcatPair(tag string, i int) (m.Pred, m.Rule) {
	x := m.Var(fmt.Sprintf("cv_%s_%d", tag, i))
	f := m.P(fmt.Sprintf("cat_%s_%d", tag, i), m.Str(fmt.Sprintf("cs_%s_%d", tag, i)))
	r := m.Rule{Head: m.P(fmt.Sprintf("cath_%s_%d", tag, i), x), Body: []m.Pred{m.P(f.Name, x)},
		Exprs: []*m.Expr{m.Bin("==", m.Bin("+", m.V(x), m.V(m.Str(fmt.Sprintf("_sfx_%s_%d", tag, i)))), m.V(m.Str("never")))}}
	return f, r
}

// c08RegexCheck holds for an authorizer that supplies its body fact: the string matches the pattern
// written next to it, and no pattern of another action
func c08RegexCheck(tag string, i int) m.Check {
	val := fmt.Sprintf("val_%s_%d", tag, i)
	return m.Check{Queries: []m.Rule{{Head: m.Pred{Name: "query"}, Body: []m.Pred{m.P(fmt.Sprintf("rx_%s_%d", tag, i), m.Str(val))},
		Exprs: []*m.Expr{m.Bin("matches", m.V(m.Str(val)), m.V(m.Str("^"+val+"$")))}}}}
}

func c08Rule(tag string, i int) m.Rule {
	x := m.Var(fmt.Sprintf("v_%s_%d", tag, i))
	return m.Rule{Head: m.P(fmt.Sprintf("h_%s_%d", tag, i), x), Body: []m.Pred{m.P(fmt.Sprintf("b_%s_%d", tag, i), x)}}
}

// panel: an authorizer that allows everything, and one that also supplies the
// facts the token's own checks ask for (per the model of what its callers put in)
func c08Panel(model []m.Block) []m.Authz {
	allow := m.Policy{Allow: true, Queries: []m.Rule{{Head: m.Pred{Name: "policy"}}}}
	a1 := m.Authz{Policies: []m.Policy{allow}}
	a2 := m.Authz{Policies: []m.Policy{allow}}
	for _, b := range model {
		for _, c := range b.Checks {
			for _, q := range c.Queries {
				a2.Facts = append(a2.Facts, q.Body...)
			}
		}
	}
	a2.Facts = bridge.DedupFacts(a2.Facts)
	return []m.Authz{a1, a2}
}

func c08Observe(tk *c08Tok, pub ed25519.PublicKey, full bool) (c08Snap, error) {
	var s c08Snap
	s.str = tk.tok.String()
	s.code = strings.Join(tk.tok.Code(), "\n")
	ser, err := tk.tok.Serialize()
	if err != nil {
		return s, fmt.Errorf("serialize: %w", err)
	}
	s.ser = ser
	s.revs = tk.tok.RevocationIds()
	if full {
		re, err := biscuit.Unmarshal(ser)
		if err != nil {
			return s, fmt.Errorf("unmarshal: %w", err)
		}
		s.reloadedStr = re.String()
		for _, az := range c08Panel(tk.model) {
			o, _, err := authorizeOnce(tk.tok, pub, az, nil)
			if err != nil {
				return s, fmt.Errorf("verify: %w", err)
			}
			s.panel = append(s.panel, o.String())
		}
		// one more authorizer for the same token and key, this time with a fact limit of 1: however
		// many authorizers were made before, the options of this one are the ones that count
		la, err := tk.tok.AuthorizerFor(biscuit.WithSingularRootPublicKey(pub), biscuit.WithWorldOptions(datalog.WithMaxFacts(1), datalog.WithMaxDuration(bridge.LongDuration)))
		if err != nil {
			return s, fmt.Errorf("verify: %w", err)
		}
		s.panel = append(s.panel, "with a fact limit of 1: "+bridge.Authorize(la).Class)
	}
	return s, nil
}

func c08Compare(born, now c08Snap, full bool) string {
	if born.str != now.str {
		return fmt.Sprintf("String() changed:\n--- at birth\n%s\n--- now\n%s", born.str, now.str)
	}
	if born.code != now.code {
		return "Code() changed"
	}
	if !bytes.Equal(born.ser, now.ser) {
		return "Serialize() changed"
	}
	if len(born.revs) != len(now.revs) {
		return "number of revocation ids changed"
	}
	for i := range born.revs {
		if !bytes.Equal(born.revs[i], now.revs[i]) {
			return fmt.Sprintf("revocation id %d changed", i)
		}
	}
	if full {
		if born.reloadedStr != now.reloadedStr {
			return "String() of the token reloaded from its bytes changed"
		}
		for i := range born.panel {
			if born.panel[i] != now.panel[i] {
				return fmt.Sprintf("outcome of panel authorizer %d changed from %s to %s", i, born.panel[i], now.panel[i])
			}
		}
	}
	return ""
}

func checkC08(c C08Case, rec *obs.Recorder) *obs.Violation {
	pub, priv := bridge.RootKey(c.RootSeed)
	rng := bridge.NewDetRand(c.RootSeed * 31)
	var toks []*c08Tok
	var builders []*c08Builder
	var blocks []*c08Block
	var hist []string
	sharedUnmarshaler := &biscuit.Unmarshaler{Symbols: &datalog.SymbolTable{}}
	sharedBase := &datalog.SymbolTable{}
	derivations := map[int]int{} // parent token -> number of derivations (builders, blocks, tokens)
	siblingObserved := false

	addTok := func(tok *biscuit.Biscuit, model []m.Block, sealed bool, how string) *obs.Violation {
		tk := &c08Tok{tok: tok, model: model, born: how, sealed: sealed}
		s, err := c08Observe(tk, pub, true)
		if err != nil {
			return obs.Violf("history [%s]: new token (%s): %v", strings.Join(hist, "; "), how, err)
		}
		tk.snap = s
		// what the new token carries is exactly what its callers put in
		_, got, err := decodeContent(s.ser)
		if err != nil {
			return obs.Violf("history [%s]: new token (%s): independent decoding: %v", strings.Join(hist, "; "), how, err)
		}
		if len(got) != len(model) {
			return obs.Violf("history [%s]: new token (%s) has %d blocks, its callers supplied %d", strings.Join(hist, "; "), how, len(got), len(model))
		}
		for i := range model {
			if w, g := model[i].Postfix().ContentKey(), got[i].ContentKey(); w != g {
				return obs.ViolK("content", "history [%s]: block %d of the new token (%s) decodes to %s, but its caller supplied %s", strings.Join(hist, "; "), i, how, g, w)
			}
		}
		// what the panel must answer follows from the content alone: every check of the model holds
		// exactly when the authorizer supplies its body fact (and its own pattern matches its own string)
		nchecks := 0
		for _, b := range model {
			nchecks += len(b.Checks)
		}
		want0 := "allow"
		if nchecks > 0 {
			want0 = fmt.Sprintf("checks(%d)", nchecks)
		}
		if len(s.panel) == 3 && nfacts(model) >= 1 && s.panel[2] != "with a fact limit of 1: "+ref.Limit {
			return obs.ViolK("panel", "history [%s]: new token (%s) holds %d facts; an authorizer created with a fact limit of 1 answers %q", strings.Join(hist, "; "), how, nfacts(model), s.panel[2])
		}
		if len(s.panel) == 3 && (s.panel[0] != want0 || s.panel[1] != "allow") {
			return obs.ViolK("panel", "history [%s]: new token (%s) with %d checks: an authorizer that allows everything gives %s (expected %s); one that also supplies the facts the checks ask for gives %s (expected allow)", strings.Join(hist, "; "), how, nchecks, s.panel[0], want0, s.panel[1])
		}
		if s.str != s.reloadedStr {
			return obs.ViolK("twin", "history [%s]: new token (%s): String() differs from the String() of the same token reloaded from its bytes:\n%s\nvs\n%s", strings.Join(hist, "; "), how, s.str, s.reloadedStr)
		}
		toks = append(toks, tk)
		return nil
	}

	first := m.Block{Facts: []m.Pred{c08Fact("root", 0), c08Fact("root", 1)}, Checks: []m.Check{c08Check("root", 0)}}
	hist = append(hist, "build")
	// the root builder stays alive: content added to it after Build must not reach the tokens it
	// has built, and building again gives a token with everything added so far
	rootB := biscuit.NewBuilder(priv, biscuit.WithRNG(rng))
	rootContent := first
	rootBuilt := c08Counts{len(first.Facts), len(first.Rules), len(first.Checks)} // what the previous Build already held
	for _, f := range first.Facts {
		if err := rootB.AddAuthorityFact(bridge.ToFact(f)); err != nil {
			return obs.Violf("build: %v", err)
		}
	}
	for _, ch := range first.Checks {
		if err := rootB.AddAuthorityCheck(bridge.ToCheck(ch)); err != nil {
			return obs.Violf("build: %v", err)
		}
	}
	tok, err := rootB.Build()
	if err != nil {
		return obs.Violf("build: %v", err)
	}
	if v := addTok(tok, []m.Block{first}, false, "build"); v != nil {
		return v
	}
	// known finding "blockbuilder-reuse": a BlockBuilder that is used again after Build. The search
	// steps around each manifestation (counted) so that everything else keeps being explored.
	knownReuse := func(what string) *obs.Violation {
		rec.Count("known_blockbuilder_reuse_stepped_around", 1)
		rec.Label("known:blockbuilder-reuse")
		if c.Strict {
			return obs.ViolK("blockbuilder-reuse", "history [%s]: %s", strings.Join(hist, "; "), what)
		}
		return nil
	}
	copyBlock := func(b m.Block) m.Block {
		return m.Block{Facts: append([]m.Pred{}, b.Facts...), Rules: append([]m.Rule{}, b.Rules...), Checks: append([]m.Check{}, b.Checks...), Context: b.Context}
	}

	for step, op := range c.Ops {
		tag := fmt.Sprint(step)
		switch op.Op {
		case "build":
			if len(toks) >= 9 {
				continue
			}
			b := m.Block{}
			for i := 0; i < 2+op.N; i++ {
				b.Facts = append(b.Facts, c08Fact(tag, i))
			}
			hist = append(hist, fmt.Sprintf("%d:build", step))
			var tok *biscuit.Biscuit
			var err error
			if step%2 == 0 {
				// biscuit.New with a base symbol table the caller keeps and passes again for the next
				// token: it stays the caller's (empty) table
				bb := biscuit.NewBlockBuilder(sharedBase.Clone())
				if err := bridge.AddBlockTo(bb, b); err != nil {
					return obs.Violf("history [%s]: build: %v", strings.Join(hist, "; "), err)
				}
				tok, err = biscuit.New(rng, priv, sharedBase, bb.Build())
				if len(*sharedBase) != 0 {
					return obs.ViolK("base-table", "history [%s]: biscuit.New wrote %q into the base symbol table its caller passed", strings.Join(hist, "; "), []string(*sharedBase))
				}
			} else {
				tok, err = bridge.BuildAuthority(priv, rng, b, nil)
			}
			if err != nil {
				return obs.Violf("history [%s]: build: %v", strings.Join(hist, "; "), err)
			}
			if v := addTok(tok, []m.Block{b}, false, "build"); v != nil {
				return v
			}
		case "rootAdd":
			hist = append(hist, fmt.Sprintf("%d:rootAdd(kind%d)", step, op.Kind))
			switch op.Kind {
			case 0:
				f := c08Fact(tag, 0)
				if err := rootB.AddAuthorityFact(bridge.ToFact(f)); err != nil {
					return obs.Violf("history [%s]: AddAuthorityFact: %v", strings.Join(hist, "; "), err)
				}
				rootContent = copyBlock(rootContent)
				rootContent.Facts = append(rootContent.Facts, f)
			case 1:
				r := c08Rule(tag, 0)
				if err := rootB.AddAuthorityRule(bridge.ToRule(r)); err != nil {
					return obs.Violf("history [%s]: AddAuthorityRule: %v", strings.Join(hist, "; "), err)
				}
				rootContent = copyBlock(rootContent)
				rootContent.Rules = append(rootContent.Rules, r)
			default:
				ch := c08Check(tag, 0)
				if err := rootB.AddAuthorityCheck(bridge.ToCheck(ch)); err != nil {
					return obs.Violf("history [%s]: AddAuthorityCheck: %v", strings.Join(hist, "; "), err)
				}
				rootContent = copyBlock(rootContent)
				rootContent.Checks = append(rootContent.Checks, ch)
			}
		case "rebuild":
			if len(toks) >= 9 {
				continue
			}
			hist = append(hist, fmt.Sprintf("%d:rebuild->t%d", step, len(toks)))
			nt, err := rootB.Build()
			if err != nil {
				return obs.Violf("history [%s]: Build on the root builder: %v", strings.Join(hist, "; "), err)
			}
			// what a second Build holds is not spelled out by the property: everything added to the
			// builder so far (the current code) or what was added since the previous Build are both
			// "what its caller put in"; anything else is not
			model := []m.Block{copyBlock(rootContent)}
			if ser, err := nt.Serialize(); err == nil {
				if _, got, err := decodeContent(ser); err == nil && len(got) == 1 {
					since := m.Block{Facts: rootContent.Facts[rootBuilt.Facts:], Rules: rootContent.Rules[rootBuilt.Rules:], Checks: rootContent.Checks[rootBuilt.Checks:]}
					if got[0].ContentKey() != rootContent.Postfix().ContentKey() && got[0].ContentKey() == since.Postfix().ContentKey() {
						model = []m.Block{copyBlock(since)}
						rec.Label("rebuild:since-last-build")
					}
				}
			}
			rootBuilt = c08Counts{len(rootContent.Facts), len(rootContent.Rules), len(rootContent.Checks)}
			if v := addTok(nt, model, false, "rebuild"); v != nil {
				return v
			}
		case "grow", "fork":
			// composite: createBlock + add + buildBlock + append on one token, once (grow: builds
			// deep chains quickly) or twice on the same parent (fork: two sibling tokens)
			i := op.A % len(toks)
			if op.Op == "grow" {
				// prefer the deepest unsealed token
				for k := range toks {
					if !toks[k].sealed && len(toks[k].model) > len(toks[i].model) {
						i = k
					}
				}
			}
			if toks[i].sealed || len(toks) >= 12 {
				continue
			}
			times := 1
			if op.Op == "fork" {
				times = 2
			}
			for n := 0; n < times; n++ {
				content := m.Block{}
				bb := toks[i].tok.CreateBlock()
				f := c08Fact(tag, 10+n)
				if err := bb.AddFact(bridge.ToFact(f)); err != nil {
					return obs.Violf("history [%s]: AddFact: %v", strings.Join(hist, "; "), err)
				}
				content.Facts = append(content.Facts, f)
				if op.Kind == 2 {
					ch := c08Check(tag, 10+n)
					_ = bb.AddCheck(bridge.ToCheck(ch))
					content.Checks = append(content.Checks, ch)
				}
				if op.Kind == 4 {
					ch := c08RegexCheck(tag, 10+n)
					_ = bb.AddCheck(bridge.ToCheck(ch))
					content.Checks = append(content.Checks, ch)
				}
				if op.Kind == 3 {
					cf, cr := c08ConcatPair(tag, 10+n)
					_ = bb.AddFact(bridge.ToFact(cf))
					_ = bb.AddRule(bridge.ToRule(cr))
					content.Facts = append(content.Facts, cf)
					content.Rules = append(content.Rules, cr)
				}
				hist = append(hist, fmt.Sprintf("%d:%s(t%d)->t%d", step, op.Op, i, len(toks)))
				nt, err := toks[i].tok.Append(rng, bb.Build())
				if err != nil {
					return obs.Violf("history [%s]: Append failed: %v", strings.Join(hist, "; "), err)
				}
				derivations[i]++
				model := append(append([]m.Block{}, toks[i].model...), content)
				if v := addTok(nt, model, false, fmt.Sprintf("%s of t%d", op.Op, i)); v != nil {
					return v
				}
			}
		case "createBlock":
			i := op.A % len(toks)
			if len(builders) >= 12 {
				continue
			}
			hist = append(hist, fmt.Sprintf("%d:createBlock(t%d)->b%d", step, i, len(builders)))
			builders = append(builders, &c08Builder{bb: toks[i].tok.CreateBlock(), parent: i})
			derivations[i]++
		case "add":
			if len(builders) == 0 {
				continue
			}
			j := op.A % len(builders)
			bd := builders[j]
			if bd.bb == nil {
				continue
			}
			hist = append(hist, fmt.Sprintf("%d:add(b%d,kind%d,n%d)", step, j, op.Kind, 1+op.N))
			for k := 0; k <= op.N && bd.bb != nil; k++ {
				var err error
				switch op.Kind {
				case 0:
					f := c08Fact(tag, k)
					err = bd.bb.AddFact(bridge.ToFact(f))
					bd.content.Facts = append(bd.content.Facts, f)
				case 1:
					r := c08Rule(tag, k)
					err = bd.bb.AddRule(bridge.ToRule(r))
					bd.content.Rules = append(bd.content.Rules, r)
				case 4:
					// a check whose expression matches a string of its own against a pattern of its own
					ch := c08RegexCheck(tag, k)
					err = bd.bb.AddCheck(bridge.ToCheck(ch))
					bd.content.Checks = append(bd.content.Checks, ch)
				case 3:
					// a fact and a rule that fires on it and builds a new string while it is evaluated
					f, r := c08ConcatPair(tag, k)
					if err = bd.bb.AddFact(bridge.ToFact(f)); err == nil {
						err = bd.bb.AddRule(bridge.ToRule(r))
					}
					bd.content.Facts = append(bd.content.Facts, f)
					bd.content.Rules = append(bd.content.Rules, r)
				default:
					ch := c08Check(tag, k)
					err = bd.bb.AddCheck(bridge.ToCheck(ch))
					bd.content.Checks = append(bd.content.Checks, ch)
				}
				if err != nil {
					if bd.built > 0 {
						// known finding "blockbuilder-reuse": the builder is abandoned, the history goes on
						if v := knownReuse(fmt.Sprintf("adding fresh content to a BlockBuilder after Build fails: %v", err)); v != nil {
							return v
						}
						bd.bb = nil
						continue
					}
					return obs.Violf("history [%s]: adding fresh content to a builder: %v", strings.Join(hist, "; "), err)
				}
			}
		case "buildBlock":
			if len(builders) == 0 {
				continue
			}
			j := op.A % len(builders)
			bd := builders[j]
			if bd.bb == nil {
				continue
			}
			hist = append(hist, fmt.Sprintf("%d:buildBlock(b%d)->k%d", step, j, len(blocks)))
			// the builder stays alive: what is added to it later belongs to later blocks only
			blk, pan := func() (blk *biscuit.Block, pan any) {
				defer func() { pan = recover() }()
				return bd.bb.Build(), nil
			}()
			if pan != nil {
				if bd.built > 0 {
					if v := knownReuse(fmt.Sprintf("a second Build on one BlockBuilder panics: %v", pan)); v != nil {
						return v
					}
					bd.bb = nil
					continue
				}
				return obs.Violf("history [%s]: BlockBuilder.Build panicked: %v", strings.Join(hist, "; "), pan)
			}
			since := m.Block{Facts: bd.content.Facts[bd.atBuild.Facts:], Rules: bd.content.Rules[bd.atBuild.Rules:], Checks: bd.content.Checks[bd.atBuild.Checks:]}
			blocks = append(blocks, &c08Block{blk: blk, parent: bd.parent, content: copyBlock(bd.content), since: copyBlock(since), reused: bd.built > 0})
			bd.built++
			bd.atBuild = c08Counts{len(bd.content.Facts), len(bd.content.Rules), len(bd.content.Checks)}
		case "append":
			if len(blocks) == 0 || len(toks) >= 9 {
				continue
			}
			k := op.A % len(blocks)
			bl := blocks[k]
			parent := toks[bl.parent]
			if parent.sealed {
				continue
			}
			hist = append(hist, fmt.Sprintf("%d:append(k%d to t%d)->t%d", step, k, bl.parent, len(toks)))
			nt, err := parent.tok.Append(rng, bl.blk)
			if err != nil {
				if bl.reused {
					if v := knownReuse(fmt.Sprintf("a block from the second Build of one BlockBuilder cannot be appended: %v", err)); v != nil {
						return v
					}
					hist = hist[:len(hist)-1]
					continue
				}
				return obs.Violf("history [%s]: Append failed: %v", strings.Join(hist, "; "), err)
			}
			derivations[bl.parent]++
			model := append(append([]m.Block{}, parent.model...), bl.content)
			if bl.reused {
				// known finding "blockbuilder-reuse": a block from a second Build may not hold what its
				// caller put in; such a token is left out of the family, everything else is still checked
				ok := false
				if ser, err := nt.Serialize(); err == nil {
					if _, got, err := decodeContent(ser); err == nil && len(got) == len(model) {
						switch got[len(got)-1].ContentKey() {
						case bl.content.Postfix().ContentKey():
							ok = true
						case bl.since.Postfix().ContentKey():
							// a builder that starts afresh after Build is as good a reading of the property
							ok = true
							model[len(model)-1] = bl.since
						}
					}
				}
				if !ok {
					if v := knownReuse("the block returned by the second Build of one BlockBuilder does not hold what was added to the builder"); v != nil {
						return v
					}
					hist = hist[:len(hist)-1]
					continue
				}
			}
			if v := addTok(nt, model, false, fmt.Sprintf("append k%d to t%d", k, bl.parent)); v != nil {
				return v
			}
		case "seal":
			i := op.A % len(toks)
			if toks[i].sealed || len(toks) >= 9 {
				continue
			}
			hist = append(hist, fmt.Sprintf("%d:seal(t%d)->t%d", step, i, len(toks)))
			nt, err := toks[i].tok.Seal(rng)
			if err != nil {
				return obs.Violf("history [%s]: Seal failed: %v", strings.Join(hist, "; "), err)
			}
			derivations[i]++
			if v := addTok(nt, toks[i].model, true, fmt.Sprintf("seal t%d", i)); v != nil {
				return v
			}
		case "reload":
			i := op.A % len(toks)
			if len(toks) >= 9 {
				continue
			}
			hist = append(hist, fmt.Sprintf("%d:reload(t%d)->t%d", step, i, len(toks)))
			// every other reload goes through one long-lived Unmarshaler value: the tokens it has
			// returned earlier must not change when it decodes another one
			var nt *biscuit.Biscuit
			var err error
			buf := append([]byte{}, toks[i].snap.ser...)
			if step%2 == 0 {
				nt, err = sharedUnmarshaler.Unmarshal(buf)
			} else {
				nt, err = biscuit.Unmarshal(buf)
			}
			// the receive buffer is the caller's and is used for the next message
			for k := range buf {
				buf[k] = 0x33
			}
			if err != nil {
				return obs.Violf("history [%s]: Unmarshal: %v", strings.Join(hist, "; "), err)
			}
			if v := addTok(nt, toks[i].model, toks[i].sealed, fmt.Sprintf("reload t%d", i)); v != nil {
				return v
			}
		case "getBlockID":
			i := op.A % len(toks)
			hist = append(hist, fmt.Sprintf("%d:getBlockID(t%d)", step, i))
			// a fact with fresh symbols (not found), then a fact the token holds
			if _, err := toks[i].tok.GetBlockID(bridge.ToFact(c08Fact(tag, 0))); err == nil {
				return obs.Violf("history [%s]: GetBlockID found a fact nobody added", strings.Join(hist, "; "))
			}
			// a predicate name the token knows (or a default symbol) with a string it has never seen
			probes := []m.Pred{m.P("right", m.Str("probe_"+tag)), m.P("resource", m.Str("probe2_"+tag), m.Var("pv_"+tag))}
			if fs := toks[i].model[0].Facts; len(fs) > 0 {
				probes = append(probes, m.P(fs[0].Name, m.Str("probe3_"+tag)))
			}
			for _, p := range probes {
				if _, err := toks[i].tok.GetBlockID(bridge.ToFact(p)); err == nil {
					return obs.Violf("history [%s]: GetBlockID found %s, which nobody added", strings.Join(hist, "; "), p.Text())
				}
			}
			// every action uses its own symbols, so a fact lives in exactly one block
			for bi, b := range toks[i].model {
				for fi, f := range b.Facts {
					if fi != 0 && fi != len(b.Facts)-1 {
						continue
					}
					got, err := toks[i].tok.GetBlockID(bridge.ToFact(f))
					if err != nil || got != bi {
						return obs.ViolK("blockid", "history [%s]: GetBlockID(%s) on t%d = %d, %v; the fact was put in block %d", strings.Join(hist, "; "), f.Text(), i, got, err, bi)
					}
				}
			}
		case "authorize":
			i := op.A % len(toks)
			hist = append(hist, fmt.Sprintf("%d:authorize(t%d)", step, i))
			az := m.Authz{Facts: []m.Pred{c08Fact(tag, 0), c08Fact(tag, 1)}, Checks: []m.Check{c08Check(tag, 0)},
				Policies: []m.Policy{{Allow: true, Queries: []m.Rule{{Head: m.Pred{Name: "policy"}, Body: []m.Pred{c08Fact(tag, 0)}}}}}}
			if _, _, err := authorizeOnce(toks[i].tok, pub, az, []m.Rule{c08Rule(tag, 3)}); err != nil {
				return obs.Violf("history [%s]: t%d does not verify: %v", strings.Join(hist, "; "), i, err)
			}
		case "print":
			i := op.A % len(toks)
			_ = toks[i].tok.String()
			_ = toks[i].tok.Code()
			_, _ = toks[i].tok.Serialize()
		}
		// invariant: every live token is exactly as it was born
		full := step%3 == 2 || step == len(c.Ops)-1
		for i, tk := range toks {
			now, err := c08Observe(tk, pub, full)
			if err != nil {
				return obs.Violf("history [%s]: t%d: %v", strings.Join(hist, "; "), i, err)
			}
			if d := c08Compare(tk.snap, now, full); d != "" {
				return obs.ViolK("mutated", "history [%s]: token t%d (%s) was changed by a later operation: %s", strings.Join(hist, "; "), i, tk.born, d)
			}
			if derivations[i] >= 2 {
				siblingObserved = true
			}
		}
		// blocks already built still hold what their caller put in: appending them later must give that content
	}
	rec.Count("steps", len(c.Ops))
	rec.Count("tokens", len(toks))
	if siblingObserved {
		rec.Label("parent-with->=2-derivations")
		if rec.NonTrivial(strings.Join(hist, ";")) {
			rec.Sample(map[string]any{"history": strings.Join(hist, "; "), "live_tokens": len(toks)})
		}
	}
	return nil
}

func drawC08(t *rapid.T) C08Case {
	c := C08Case{RootSeed: rapid.Uint64Range(1, 1<<16).Draw(t, "root")}
	n := rapid.IntRange(4, 28).Draw(t, "steps")
	ops := []string{"createBlock", "createBlock", "add", "add", "add", "buildBlock", "buildBlock", "append", "append", "append",
		"seal", "reload", "getBlockID", "authorize", "print", "build", "grow", "grow", "grow", "fork", "fork", "rootAdd", "rootAdd", "rebuild"}
	for i := 0; i < n; i++ {
		c.Ops = append(c.Ops, C08Op{
			Op:   rapid.SampledFrom(ops).Draw(t, "op"),
			A:    rapid.IntRange(0, 11).Draw(t, "a"),
			N:    rapid.IntRange(0, 2).Draw(t, "n"),
			Kind: rapid.IntRange(0, 4).Draw(t, "kind"),
		})
	}
	return c
}

func TestC08(t *testing.T) {
	rec := obs.New("C08")
	defer rec.Flush(true)
	rec.SetExtra("rule", "rapid operation histories (4-28 steps) over a growing family of tokens under one root key: build, createBlock(token), add fact / rule / check / fact-plus-rule that concatenates strings when it fires / check that matches its own string against its own pattern to a builder (every action uses symbols no other action uses), buildBlock (builders stay usable: more adds and further Builds follow), rootAdd (adding to the root Builder after it has built tokens) and rebuild (Build on it again), append(block to the token whose CreateBlock made it; the same block may be appended twice), seal, reload from bytes (every other time through one long-lived Unmarshaler value), GetBlockID (fresh fact; known predicate name or default symbol with a fresh string), authorize with fresh content, print, and the composites grow (create+add+build+append on the deepest token) and fork (the same twice on one parent). Parents are drawn with replacement, so several builders, blocks and tokens derived from one parent are the norm. Model: for every token the blocks its own callers supplied, plus a snapshot at birth. Invariant after every step for every live token: String, Code, Serialize, RevocationIds unchanged; every third step also String of the token reloaded from its bytes and the outcomes of two panel authorizers (allow-all; allow-all plus the facts the token's own checks ask for). At birth: independent decoding of Serialize equals the model, String equals the reloaded twin's, the two panel authorizers answer what the content implies (checks(n) for n checks without their facts, allow with them), and a further authorizer created with a fact limit of 1 runs into that limit; a token or block from a second Build may hold everything added so far or what was added since the previous Build (both readings are accepted), nothing else. The known finding blockbuilder-reuse (KNOWN_FINDINGS.txt) is stepped around and counted (known_blockbuilder_reuse_stepped_around): blocks already built are still checked. Non-trivial = a history in which some parent has >= 2 derivations and is observed afterwards; distinct by history.")
	rec.SetExtra("assumptions", []string{"a block is appended only to the token whose CreateBlock made it; Build is called once per builder"})
	harness.RunWith(t, harness.Spec[C08Case]{ID: "C08", Draw: drawC08, Check: checkC08}, rec)
}
