package props

import (
	"crypto/ed25519"
	"errors"
	"fmt"
	"strings"
	"testing"
	"time"

	biscuit "github.com/biscuit-auth/biscuit-go/v2"
	"github.com/biscuit-auth/biscuit-go/v2/datalog"
	"pgregory.net/rapid"

	"verif/internal/bridge"
	"verif/internal/gen"
	"verif/internal/harness"
	m "verif/internal/model"
	"verif/internal/obs"
	"verif/internal/wire"
)

// C13 — Reset gives a clean authorizer: nothing leaks from one request into the next.

type C13Round struct {
	Authz   m.Authz  `json:"authz"`
	Action  string   `json:"action"` // authorize | query | both
	Queries []m.Rule `json:"queries"`
	Via     string   `json:"via,omitempty"` // "" = Add* calls; "load" = LoadPolicies of a snapshot of this content
}

type C13Case struct {
	Token    m.Token    `json:"token"`
	Rounds   []C13Round `json:"rounds"`
	RootSeed uint64     `json:"root_seed"`
	Reload   bool       `json:"reload"`
	HeavyN   int        `json:"heavy_n,omitempty"` // > 0: first a round that ends in a timeout (cross product over this many facts)
	Marathon int        `json:"marathon,omitempty"` // > 0: that many cheap requests (Authorize, Reset) served before the rounds
}

// c13TimeoutRound: "any outcome of each round" includes a round that is cut short by the
// duration limit. The abandoned evaluation keeps running for a while; after Reset, and once
// it has finished, the authorizer must still behave like a fresh one.
func c13TimeoutRound(c C13Case, b *biscuit.Biscuit, pub ed25519.PublicKey, rec *obs.Recorder) *obs.Violation {
	opt := biscuit.WithWorldOptions(datalog.WithMaxDuration(15*time.Millisecond), datalog.WithMaxFacts(100000), datalog.WithMaxIterations(1000))
	mk := func() (biscuit.Authorizer, error) {
		return b.AuthorizerFor(biscuit.WithSingularRootPublicKey(pub), opt)
	}
	a, err := mk()
	if err != nil {
		return obs.Violf("token does not verify: %v", err)
	}
	x, y, z, w := m.Var("x"), m.Var("y"), m.Var("z"), m.Var("w")
	for i := 0; i < c.HeavyN; i++ {
		a.AddFact(bridge.ToFact(m.P("resource", m.Int(int64(1000+i)))))
	}
	// every combination matches: right(i) is known only when the whole enumeration is over
	a.AddRule(bridge.ToRule(m.Rule{Head: m.P("right", x), Body: []m.Pred{m.P("resource", x), m.P("resource", y), m.P("resource", z), m.P("resource", w)}}))
	a.AddPolicy(bridge.ToPolicy(m.Policy{Allow: true, Queries: []m.Rule{{Head: m.Pred{Name: "policy"}}}}))
	if first := a.Authorize(); !errors.Is(first, datalog.ErrWorldRunLimitTimeout) {
		rec.Label("timeout-round:no-timeout(skipped)")
		return nil
	}
	a.Reset()
	// wait for the abandoned evaluation to finish
	deadline := time.Now().Add(20 * time.Second)
	for snapshotDatalogGoroutines().active > 0 {
		if time.Now().After(deadline) {
			rec.Label("timeout-round:still-running(skipped)")
			return nil
		}
		time.Sleep(20 * time.Millisecond)
	}
	q := m.Rule{Head: m.P("seen", x), Body: []m.Pred{m.P("right", x)}}
	q2 := m.Rule{Head: m.P("seen", x), Body: []m.Pred{m.P("resource", x)}}
	ask := func(az biscuit.Authorizer) (string, bool) {
		for try := 0; try < 6; try++ {
			k1, k2 := queryKey(az, q), queryKey(az, q2)
			if k1 != "!limit" && k2 != "!limit" {
				return k1 + " | " + k2, true
			}
		}
		return "", false
	}
	fresh, err := mk()
	if err != nil {
		return obs.Violf("token does not verify: %v", err)
	}
	got, ok1 := ask(a)
	want, ok2 := ask(fresh)
	if !ok1 || !ok2 {
		rec.Label("timeout-round:limit-on-empty-round(skipped)")
		return nil
	}
	rec.Label("timeout-round:compared")
	if got != want {
		return obs.ViolK("reset-leak", "token %s: a round of %d facts and a 4-way cross product ended with the timeout error; after Reset (and after the abandoned evaluation had finished) the authorizer, with nothing added, answers {%s} where a fresh authorizer answers {%s}", c.Token.Text(), c.HeavyN, got, want)
	}
	return nil
}

type roundObs struct {
	class   string
	queries []string
}

func (a roundObs) diff(b roundObs) string {
	if a.class != b.class {
		return fmt.Sprintf("outcome %s vs %s", a.class, b.class)
	}
	for i := range a.queries {
		if a.queries[i] != b.queries[i] {
			return fmt.Sprintf("query %d: {%s} vs {%s}", i, a.queries[i], b.queries[i])
		}
	}
	return ""
}

func checkC13(c C13Case, rec *obs.Recorder) *obs.Violation {
	b, pub, err := mkToken(c.Token, c.RootSeed, c.Reload)
	if err != nil {
		return obs.Violf("cannot build token %s: %v", c.Token.Text(), err)
	}
	// authorizers of a marathon case get an iteration limit of the order of the number of requests
	// served (the rounds themselves need a handful of iterations each)
	mkAuthorizer := func() (biscuit.Authorizer, error) {
		if c.Marathon == 0 && c.RootSeed%7 == 0 {
			// a tight fact limit given at creation: it is part of what "a newly created authorizer
			// for the same token" means, before and after every Reset
			return b.AuthorizerFor(biscuit.WithSingularRootPublicKey(pub), biscuit.WithWorldOptions(
				datalog.WithMaxDuration(bridge.LongDuration), datalog.WithMaxFacts(2), datalog.WithMaxIterations(10000)))
		}
		if c.Marathon == 0 {
			return newAuthz(b, pub, m.Authz{})
		}
		return b.AuthorizerFor(biscuit.WithSingularRootPublicKey(pub), biscuit.WithWorldOptions(
			datalog.WithMaxDuration(bridge.LongDuration), datalog.WithMaxFacts(100000), datalog.WithMaxIterations(60)))
	}
	reused, err := mkAuthorizer()
	if err != nil {
		return obs.Violf("token does not verify: %v", err)
	}
	if c.HeavyN > 0 {
		if v := c13TimeoutRound(c, b, pub, rec); v != nil {
			return v
		}
	}
	act := func(a interface {
		Authorize() error
	}, r C13Round, q func(m.Rule) string) roundObs {
		var o roundObs
		if r.Action == "authorize" || r.Action == "both" {
			o.class = bridge.Classify(a.Authorize()).String()
		}
		if r.Action == "query" || r.Action == "both" {
			for _, qr := range r.Queries {
				o.queries = append(o.queries, q(qr))
			}
		}
		return o
	}
	var prev *C13Round
	var hist []string
	sensitive := false
	// deliver gives a round's content to an authorizer, through Add* calls or through LoadPolicies
	// of a snapshot taken from a third, throw-away authorizer; returns the authorizer's own
	// unevaluated snapshot, independently decoded (what it would hand to another service)
	// a service that keeps its parsed authorizer around hands the same Go value to AddAuthorizer for
	// every request with that content; the fresh authorizer of the comparison gets a value of its own
	parsedMemo := map[string]*biscuit.ParsedAuthorizer{}
	deliver := func(a biscuit.Authorizer, r C13Round, longLived bool) (string, error) {
		if r.Via == "parsed" {
			pa := bridge.ToParsedAuthorizer(r.Authz)
			if longLived {
				if p, ok := parsedMemo[r.Authz.Key()]; ok {
					pa = *p
				} else {
					parsedMemo[r.Authz.Key()] = &pa
				}
			}
			a.AddAuthorizer(pa)
		} else if r.Via == "load" {
			src, err := newAuthz(b, pub, r.Authz)
			if err != nil {
				return "", err
			}
			data, err := src.SerializePolicies()
			if err != nil {
				return "", fmt.Errorf("SerializePolicies of the round's content: %w", err)
			}
			if err := a.LoadPolicies(data); err != nil {
				return "", fmt.Errorf("LoadPolicies: %w", err)
			}
		} else {
			bridge.AddAuthz(a, r.Authz)
		}
		data, err := a.SerializePolicies()
		if err != nil {
			return "", fmt.Errorf("SerializePolicies: %w", err)
		}
		return wire.SnapshotKey(data)
	}
	if c.Marathon > 0 {
		// a long-lived authorizer: many cheap requests (each derives a fact) were served and Reset
		// before the rounds that are compared; whatever they used up is given back by Reset
		for k := 0; k < c.Marathon; k++ {
			reused.AddFact(bridge.ToFact(m.P("marathon_src", m.Int(int64(k)))))
			reused.AddRule(bridge.ToRule(m.Rule{Head: m.P("marathon_out", m.Var("x")), Body: []m.Pred{m.P("marathon_src", m.Var("x"))}}))
			reused.AddPolicy(bridge.ToPolicy(m.Policy{Allow: true, Queries: []m.Rule{{Head: m.Pred{Name: "policy"}, Body: []m.Pred{m.P("marathon_out", m.Var("y"))}}}}))
			_ = reused.Authorize()
			reused.Reset()
		}
		hist = append(hist, fmt.Sprintf("%d earlier requests, each followed by Reset", c.Marathon))
		rec.Label("marathon")
	}
	for i, r := range c.Rounds {
		snapGot, errGot := deliver(reused, r, true)
		got := act(reused, r, func(q m.Rule) string { return queryKey(reused, q) })
		reused.Reset()

		fresh, err := mkAuthorizer()
		if err != nil {
			return obs.Violf("fresh authorizer: %v", err)
		}
		snapWant, errWant := deliver(fresh, r, false)
		if errWant != nil {
			return obs.Violf("token %s; round %d {%s} via %q: a fresh authorizer cannot take the content: %v", c.Token.Text(), i+1, r.Authz.Text(), r.Via, errWant)
		}
		if errGot != nil || snapGot != snapWant {
			return obs.ViolK("reset-leak", "token %s; history: %s; round %d {%s} delivered via %q: the reused authorizer's unevaluated snapshot differs from a fresh authorizer's (err=%v):\n  reused: %s\n  fresh:  %s", c.Token.Text(), strings.Join(hist, " | "), i+1, r.Authz.Text(), r.Via, errGot, snapGot, snapWant)
		}
		want := act(fresh, r, func(q m.Rule) string { return queryKey(fresh, q) })
		hist = append(hist, fmt.Sprintf("round %d %s {%s} -> %s", i+1, r.Action, r.Authz.Text(), want.class))

		// would this round behave differently if the previous round's content were still there?
		if prev != nil {
			union := m.Authz{
				Facts:    append(append([]m.Pred{}, prev.Authz.Facts...), r.Authz.Facts...),
				Rules:    append(append([]m.Rule{}, prev.Authz.Rules...), r.Authz.Rules...),
				Checks:   append(append([]m.Check{}, prev.Authz.Checks...), r.Authz.Checks...),
				Policies: append(append([]m.Policy{}, prev.Authz.Policies...), r.Authz.Policies...),
			}
			ua, err := newAuthz(b, pub, union)
			if err == nil {
				leaky := act(ua, r, func(q m.Rule) string { return queryKey(ua, q) })
				if leaky.diff(want) != "" {
					sensitive = true
					rec.Label("round-sensitive-to-leak")
				}
			}
		}
		if d := got.diff(want); d != "" {
			return obs.ViolK("reset-leak", "token %s; history: %s; round %d on the reused authorizer differs from a fresh authorizer given only that round's content: %s", c.Token.Text(), strings.Join(hist, " | "), i+1, d)
		}
		rr := r
		prev = &rr
	}
	rec.Count("rounds", len(c.Rounds))
	if sensitive && rec.NonTrivial(c.Token.Key()+strings.Join(hist, "|")) {
		rec.Sample(map[string]any{"token": c.Token.Text(), "history": hist})
	}
	return nil
}

func drawC13(t *rapid.T) C13Case {
	cfg := gen.DefaultProg
	cfg.MaxBlocks = 1
	cfg.PCheckSat = 90
	cfg.PPolicyMatch = 60
	sc := gen.DrawScenario(t, cfg, gen.SmallProfile)
	c := C13Case{Token: sc.Token, RootSeed: rapid.Uint64Range(1, 1<<20).Draw(t, "root"), Reload: rapid.Bool().Draw(t, "reload")}
	if rapid.IntRange(0, 39).Draw(t, "timeout-round") == 39 {
		c.HeavyN = rapid.IntRange(16, 22).Draw(t, "heavy-n")
	}
	if rapid.IntRange(0, 19).Draw(t, "marathon") == 0 {
		c.Marathon = rapid.IntRange(100, 130).Draw(t, "marathon-n")
	}
	n := rapid.IntRange(2, 6).Draw(t, "rounds")
	cur := sc.Authz
	for i := 0; i < n; i++ {
		if i > 0 {
			switch rapid.IntRange(0, 4).Draw(t, "relate") {
			case 0:
				cur = sc.Schema.DrawAuthz(t, sc.Token, cfg) // unrelated content
			case 4:
				// the content of an earlier round again (a recurring request)
				cur = c.Rounds[rapid.IntRange(0, i-1).Draw(t, "again")].Authz
			default:
				// the previous round with one request fact changed or dropped
				next := m.Authz{Rules: cur.Rules, Checks: cur.Checks, Policies: cur.Policies}
				facts := append([]m.Pred{}, cur.Facts...)
				if len(facts) > 0 {
					j := rapid.IntRange(0, len(facts)-1).Draw(t, "chg")
					if rapid.Bool().Draw(t, "drop") {
						facts = append(facts[:j], facts[j+1:]...)
					} else {
						facts[j] = sc.Schema.DrawFact(t)
					}
				} else {
					facts = append(facts, sc.Schema.DrawFact(t))
				}
				next.Facts = bridge.DedupFacts(facts)
				if rapid.IntRange(0, 2).Draw(t, "droppol") == 0 && len(next.Policies) > 0 {
					next.Policies = next.Policies[1:]
				}
				if rapid.IntRange(0, 2).Draw(t, "dropchk") == 0 && len(next.Checks) > 0 {
					next.Checks = next.Checks[1:]
				}
				cur = next
			}
		}
		r := C13Round{Authz: cur, Action: rapid.SampledFrom([]string{"authorize", "authorize", "both", "query"}).Draw(t, "action")}
		switch rapid.IntRange(0, 4).Draw(t, "via") {
		case 2:
			r.Via = "load"
		case 3, 4:
			r.Via = "parsed"
		}
		closure := gen.AuthClosure(sc.Token, cur)
		for k := 0; k < 2; k++ {
			r.Queries = append(r.Queries, sc.Schema.DrawPanelQuery(t, closure))
		}
		c.Rounds = append(c.Rounds, r)
	}
	return c
}

func TestC13(t *testing.T) {
	rec := obs.New("C13")
	defer rec.Flush(true)
	rec.SetExtra("rule", "rapid histories on one authorizer: 2-6 rounds of (add facts / rules / checks / policies, then Authorize and/or a query panel, then Reset); the content of a round is the previous round with one request fact changed or dropped (and sometimes a check or policy dropped), unrelated content, or the content of an earlier round again. A fifth of the rounds deliver their content through LoadPolicies of a snapshot taken from a throw-away authorizer, two fifths through AddAuthorizer with a ParsedAuthorizer value that the long-lived authorizer receives again whenever the content recurs (the fresh authorizer of the comparison gets a value of its own), the rest through Add* calls; one history in seven runs under a fact limit of 2 given at creation, one in twenty follows 100-130 cheap requests (Authorize, Reset) under an iteration limit of 60, one history in forty starts with a round that is cut short by a 15 ms limit (4-way cross product over 16-22 facts), followed by Reset and a wait for the abandoned evaluation to end. Oracle: the independently decoded unevaluated snapshot (SerializePolicies), the outcome class and the panel answers of every round equal those of a fresh authorizer for the same token given only that round's content. Non-trivial = a history with a round whose result would differ if the previous round's content were still present (decided by running a fresh authorizer on the union); distinct by (token, history).")
	rec.SetExtra("assumptions", []string{"comparison is between two executions of the library; correctness of each verdict is C04's subject"})
	harness.RunWith(t, harness.Spec[C13Case]{ID: "C13", Draw: drawC13, Check: checkC13}, rec)
}
