package props

import (
	"bytes"
	"crypto/ed25519"
	"errors"
	"fmt"
	"io"
	"testing"

	biscuit "github.com/biscuit-auth/biscuit-go/v2"
	"github.com/biscuit-auth/biscuit-go/v2/datalog"
	"pgregory.net/rapid"

	"verif/internal/bridge"
	"verif/internal/gen"
	"verif/internal/harness"
	m "verif/internal/model"
	"verif/internal/obs"
	"verif/internal/ref"
	"verif/internal/wire"
)

// C20 — entropy failure is reported, never turned into a panic or a degenerate key.

type C20Case struct {
	RootSeed  uint64  `json:"root_seed"`
	RngKey    uint64  `json:"rng_key"`
	Authority m.Block `json:"authority"`
	Later     m.Block `json:"later"`
	Chunk     int     `json:"chunk"` // drawn chunk size for the third chunking mode
}

// faultReader delivers the first K bytes of a fixed stream in chunks, then fails.
type faultReader struct {
	data      []byte
	k         int
	pos       int
	chunk     int    // max bytes per Read (0 = unlimited)
	kind      string // err | eof | unexpected
	eofInline bool   // report the failure together with the last data bytes
	delivered []byte
	// kind "transient": the failure is reported once, then the source delivers again
	failedOnce bool
}

var errEntropy = errors.New("entropy source failed")

func (f *faultReader) fail() error {
	switch f.kind {
	case "eof":
		return io.EOF
	case "unexpected":
		return io.ErrUnexpectedEOF
	case "temporary":
		return temporaryErr{}
	case "unhashable":
		return multiErr{errEntropy, io.ErrNoProgress}
	}
	return errEntropy
}

// multiErr is an error value of a non-comparable type (a list of causes), as error-joining
// helpers produce: it can be returned and wrapped, but not used as a map key.
// deadSource is a random source without state: a value type whose zero value is the source. It
// fails at once (k = 0).
type deadSource struct{}

func (deadSource) Read([]byte) (int, error) { return 0, errEntropy }

// c20DeadSource: every operation that takes a random source, given a deadSource value.
func c20DeadSource(c C20Case, base *biscuit.Biscuit, priv ed25519.PrivateKey) *obs.Violation {
	try := func(what string, f func() (*biscuit.Biscuit, error)) (v *obs.Violation) {
		defer func() {
			if p := recover(); p != nil {
				v = obs.ViolK("panic", "%s with a stateless source that fails at once: panic: %v", what, p)
			}
		}()
		if tok, err := f(); err == nil || tok != nil {
			return obs.ViolK("dead-source", "%s with a stateless source that fails at once (a zero-sized value type): expected an error and no token, got token=%v err=%v", what, tok != nil, err)
		}
		return nil
	}
	if v := try("Builder.Build", func() (*biscuit.Biscuit, error) {
		return biscuit.NewBuilder(priv, biscuit.WithRNG(deadSource{})).Build()
	}); v != nil {
		return v
	}
	if v := try("biscuit.New", func() (*biscuit.Biscuit, error) {
		return biscuit.New(deadSource{}, priv, &datalog.SymbolTable{}, biscuit.NewBlockBuilder(&datalog.SymbolTable{}).Build())
	}); v != nil {
		return v
	}
	return try("Append", func() (*biscuit.Biscuit, error) { return base.Append(deadSource{}, base.CreateBlock().Build()) })
}

type multiErr []error

func (e multiErr) Error() string { return fmt.Sprint([]error(e)) }

// temporaryErr is what a non-blocking or network-backed source keeps answering while it has
// nothing to give (EAGAIN, a timeout): an error all the same.
type temporaryErr struct{}

func (temporaryErr) Error() string   { return "resource temporarily unavailable" }
func (temporaryErr) Temporary() bool { return true }
func (temporaryErr) Timeout() bool   { return true }

func (f *faultReader) Read(p []byte) (int, error) {
	if f.kind == "transient" && f.failedOnce {
		// the source has recovered: it delivers the rest of the stream
		n := len(p)
		if f.chunk > 0 && n > f.chunk {
			n = f.chunk
		}
		if n > len(f.data)-f.pos {
			n = len(f.data) - f.pos
		}
		if n == 0 {
			return 0, io.EOF
		}
		copy(p, f.data[f.pos:f.pos+n])
		f.delivered = append(f.delivered, f.data[f.pos:f.pos+n]...)
		f.pos += n
		return n, nil
	}
	if f.pos >= f.k {
		f.failedOnce = true
		return 0, f.fail()
	}
	n := len(p)
	if f.chunk > 0 && n > f.chunk {
		n = f.chunk
	}
	if n > f.k-f.pos {
		n = f.k - f.pos
	}
	copy(p, f.data[f.pos:f.pos+n])
	f.delivered = append(f.delivered, f.data[f.pos:f.pos+n]...)
	f.pos += n
	if f.pos >= f.k && f.eofInline {
		f.failedOnce = true
		return n, f.fail()
	}
	return n, nil
}

type c20Cell struct {
	Op     string
	K      int
	Kind   string
	Chunk  int
	Inline bool
}

func (c c20Cell) String() string {
	return fmt.Sprintf("op=%s k=%d failure=%s chunk=%d inline=%v", c.Op, c.K, c.Kind, c.Chunk, c.Inline)
}

// runCell performs one operation with the fault reader; returns the token and error.
func runCell(c C20Case, cell c20Cell, base *biscuit.Biscuit, priv ed25519.PrivateKey, stream []byte) (tok *biscuit.Biscuit, fr *faultReader, err error, pan any) {
	defer func() {
		if p := recover(); p != nil {
			pan = p
		}
	}()
	fr = &faultReader{data: stream, k: cell.K, chunk: cell.Chunk, kind: cell.Kind, eofInline: cell.Inline}
	switch cell.Op {
	case "builder", "builder+keyid", "builder+keyid-first":
		var b biscuit.Builder
		switch cell.Op {
		case "builder+keyid":
			b = biscuit.NewBuilder(priv, biscuit.WithRNG(fr), biscuit.WithRootKeyID(7))
		case "builder+keyid-first":
			b = biscuit.NewBuilder(priv, biscuit.WithRootKeyID(0), biscuit.WithRNG(fr))
		default:
			b = biscuit.NewBuilder(priv, biscuit.WithRNG(fr))
		}
		for _, f := range c.Authority.Facts {
			if e := b.AddAuthorityFact(bridge.ToFact(f)); e != nil {
				return nil, fr, fmt.Errorf("harness: %w", e), "harness: cannot add fact"
			}
		}
		for _, r := range c.Authority.Rules {
			_ = b.AddAuthorityRule(bridge.ToRule(r))
		}
		for _, ch := range c.Authority.Checks {
			_ = b.AddAuthorityCheck(bridge.ToCheck(ch))
		}
		tok, err = b.Build()
	case "builder-second-build":
		// one builder, built twice: the first Build takes 32 bytes and succeeds, the fault point
		// applies to the second Build, which must draw from the same supplied source
		fr.k = 32 + cell.K
		b := biscuit.NewBuilder(priv, biscuit.WithRNG(fr))
		for _, f := range c.Authority.Facts {
			if e := b.AddAuthorityFact(bridge.ToFact(f)); e != nil {
				return nil, fr, fmt.Errorf("harness: %w", e), "harness: cannot add fact"
			}
		}
		if first, e := b.Build(); e != nil || first == nil {
			return nil, fr, fmt.Errorf("harness: %w", e), "harness: the first Build failed although the source delivered 32 bytes"
		}
		fr.delivered = nil
		fr.failedOnce = false // a failure reported with the last byte of the first Build belongs to the first Build
		tok, err = b.Build()
	case "new":
		bb := biscuit.NewBlockBuilder(&datalog.SymbolTable{})
		if e := bridge.AddBlockTo(bb, c.Authority); e != nil {
			return nil, fr, e, "harness: cannot fill block"
		}
		tok, err = biscuit.New(fr, priv, &datalog.SymbolTable{}, bb.Build())
	case "append", "append-reloaded":
		bb := base.CreateBlock()
		if e := bridge.AddBlockTo(bb, c.Later); e != nil {
			return nil, fr, e, "harness: cannot fill block"
		}
		tok, err = base.Append(fr, bb.Build())
	}
	return tok, fr, err, nil
}

func checkC20(c C20Case, rec *obs.Recorder) *obs.Violation {
	pub, priv := bridge.RootKey(c.RootSeed)
	stream := make([]byte, 96)
	bridge.NewDetRand(c.RngKey).Read(stream)
	fresh, err := bridge.BuildAuthority(priv, bridge.NewDetRand(c.RngKey+1), c.Authority, nil)
	if err != nil {
		return obs.Violf("cannot build base token: %v", err)
	}
	ser, err := fresh.Serialize()
	if err != nil {
		return obs.Violf("serialize: %v", err)
	}
	reloaded, err := biscuit.Unmarshal(ser)
	if err != nil {
		return obs.Violf("unmarshal: %v", err)
	}
	if v := c20DeadSource(c, fresh, priv); v != nil {
		return v
	}
	shape := c.Authority.Key() + c.Later.Key()
	chunks := []int{0, 1, c.Chunk}
	cells := 0
	for _, op := range []string{"builder", "builder+keyid", "builder+keyid-first", "builder-second-build", "new", "append", "append-reloaded"} {
		base := fresh
		if op == "append-reloaded" {
			base = reloaded
		}
		ks := make([]int, 0, 36)
		for k := 0; k < 32; k++ {
			ks = append(ks, k)
		}
		ks = append(ks, 32, 33, 64, 96) // controls: the source fails only after the key material was delivered
		for _, k := range ks {
			for _, kind := range []string{"err", "eof", "unexpected", "temporary", "unhashable", "transient"} {
				for ci, chunk := range chunks {
					cell := c20Cell{Op: op, K: k, Kind: kind, Chunk: chunk, Inline: (k+ci)%2 == 1}
					cells++
					tok, fr, err, pan := runCell(c, cell, base, priv, stream)
					if k < 32 {
						rec.NonTrivial(fmt.Sprintf("%x|%s|%d|%s|%d|%v", obs.Hash(shape), op, k, kind, chunk, cell.Inline))
					}
					if pan != nil {
						return obs.ViolK("panic", "%s: panic: %v", cell, pan)
					}
					if k < 32 {
						if err == nil || tok != nil {
							return obs.Violf("%s: the source failed after %d of 32 bytes, expected an error and no token, got token=%v err=%v", cell, k, tok != nil, err)
						}
						continue
					}
					if err != nil || tok == nil {
						return obs.Violf("%s: the source delivered %d bytes (enough), got err=%v", cell, len(fr.delivered), err)
					}
					out, err := tok.Serialize()
					if err != nil {
						return obs.Violf("%s: serialize: %v", cell, err)
					}
					env, err := wire.DecodeBiscuit(out)
					if err != nil {
						return obs.Violf("%s: independent reader: %v", cell, err)
					}
					all := env.All()
					if len(fr.delivered) < 32 {
						return obs.Violf("%s: a token was returned, but only %d bytes were drawn from the supplied source for it", cell, len(fr.delivered))
					}
					seed := fr.delivered[:32]
					wantPub := ed25519.NewKeyFromSeed(seed).Public().(ed25519.PublicKey)
					if !bytes.Equal(all[len(all)-1].NextKey, wantPub) {
						return obs.Violf("%s: announced next key is not the key derived from the 32 bytes the source delivered", cell)
					}
					if !env.Proof.HasSecret || !bytes.Equal(env.Proof.Secret, seed) {
						return obs.Violf("%s: next secret is not the 32 bytes the source delivered", cell)
					}
					if r := ref.VerifyChain(out, pub); !r.OK {
						return obs.Violf("%s: returned token does not verify: %s", cell, r.Reason)
					}
				}
			}
		}
	}
	rec.EvalN(cells - 1)
	rec.Count("fault_cells", cells)
	rec.Label("shape")
	rec.Sample(map[string]any{"authority": c.Authority.Text(), "later_block": c.Later.Text(), "cells": cells,
		"cell_space": "op{builder,builder+keyid,builder+keyid-first,builder-second-build,new,append,append-reloaded} x k{0..31,32,33,64,96} x failure{err,eof,unexpected,temporary,unhashable,transient} x chunking{all,1 byte," + fmt.Sprint(c.Chunk) + "}"})
	return nil
}

func drawC20(t *rapid.T) C20Case {
	s := gen.DrawSchema(t, gen.SmallProfile, 1, 3)
	return C20Case{
		RootSeed:  rapid.Uint64Range(1, 1<<16).Draw(t, "root"),
		RngKey:    rapid.Uint64Range(1, 1<<32).Draw(t, "rng"),
		Authority: drawSimpleBlock(t, s),
		Later:     drawSimpleBlock(t, s),
		Chunk:     rapid.IntRange(2, 31).Draw(t, "chunk"),
	}
}

func TestC20(t *testing.T) {
	rec := obs.New("C20")
	defer rec.Flush(true)
	rec.SetExtra("rule", "fault enumeration: for every generated token shape (authority content, appended content), every operation that draws randomness (Builder.Build with WithRNG alone and combined with WithRootKeyID in either order, the second Build of one builder whose first Build took 32 bytes, biscuit.New, Append on a fresh token, Append on a token reloaded from bytes) x every fault point k in 0..31 (plus controls k = 32, 33, 64, 96) x failure kind (error, io.EOF, io.ErrUnexpectedEOF, a persistent error whose Temporary() and Timeout() are true, an error value of a non-comparable type, an error reported once after which the source delivers again; reported with the last data or on the next call) x chunking (all at once, one byte at a time, drawn chunk size). k < 32: an error, no token, no panic. k >= 32: the announced next key and the proof are derived from the first 32 delivered bytes and the chain verifies per the reference. Non-trivial = fault strictly inside the key read (k < 32); distinct by (shape, operation, k, kind, chunking). The cell space is enumerated completely for each shape.")
	rec.SetExtra("assumptions", []string{"ed25519.GenerateKey reads exactly 32 bytes with io.ReadFull (Go 1.23 standard library)", "Seal draws no randomness"})
	rec.SetExtra("exhaustive", true)
	harness.RunWith(t, harness.Spec[C20Case]{ID: "C20", Draw: drawC20, Check: checkC20}, rec)
}
