package props

import (
	"fmt"
	"testing"

	biscuit "github.com/biscuit-auth/biscuit-go/v2"
	"github.com/biscuit-auth/biscuit-go/v2/datalog"
	"pgregory.net/rapid"

	"verif/internal/bridge"
	"verif/internal/gen"
	"verif/internal/harness"
	m "verif/internal/model"
	"verif/internal/obs"
	"verif/internal/ref"
	"verif/internal/wire"
)

// C18 — an authorizer snapshot restores an equivalent authorizer.

type C18Case struct {
	T1       m.Token  `json:"t1"` // where the snapshot is taken
	T2       m.Token  `json:"t2"` // where it is loaded
	Authz    m.Authz  `json:"authz"`
	Queries  []m.Rule `json:"queries"`
	RootSeed uint64   `json:"root_seed"`
	Dirty    string   `json:"dirty"` // authorize | query: how the original is evaluated before the refused save
	Bad      string   `json:"bad"`   // kind of malformed snapshot
	Bit      int      `json:"bit"`
	Raw      []byte   `json:"raw"`
}

var c18Bad = []string{"random", "flip", "truncate", "version-absent", "version-2", "version-4", "policy-without-kind", "policy-unknown-kind",
	"fact-with-variable-set", "empty", "op-without-kind", "term-without-content", "index-out-of-range"}

// snapshotFromModel writes a snapshot of az with the independent writer.
func snapshotFromModel(az m.Authz) *wire.Snapshot {
	in := &wire.Interner{T: &wire.Table{}}
	s := &wire.Snapshot{}
	for _, f := range az.Facts {
		s.Facts = append(s.Facts, in.Pred(f))
	}
	for _, r := range az.Rules {
		s.Rules = append(s.Rules, in.Rule(r.Postfix()))
	}
	for _, c := range az.Checks {
		var wc wire.Check
		for _, q := range c.Queries {
			wc.Queries = append(wc.Queries, in.Rule(q.Postfix()))
		}
		s.Checks = append(s.Checks, wc)
	}
	for _, p := range az.Policies {
		wp := wire.Policy{Kind: 1}
		if p.Allow {
			wp.Kind = 0
		}
		for _, q := range p.Queries {
			wp.Queries = append(wp.Queries, in.Rule(q.Postfix()))
		}
		s.Policies = append(s.Policies, wp)
	}
	s.Symbols = append([]string{}, in.T.Syms...)
	v := uint32(3)
	s.Version = &v
	return s
}

func loadSafely(a biscuit.Authorizer, data []byte) (err error, pan any) {
	defer func() {
		if p := recover(); p != nil {
			pan = fmt.Sprintf("%v\n%s", p, trimStack(debugStack()))
		}
	}()
	return a.LoadPolicies(data), nil
}

func checkC18(c C18Case, rec *obs.Recorder) *obs.Violation {
	desc := fmt.Sprintf("authorizer {%s} saved on token %s, loaded on token %s", c.Authz.Text(), c.T1.Text(), c.T2.Text())
	b1, pub, err := mkToken(c.T1, c.RootSeed, false)
	if err != nil {
		return obs.Violf("cannot build T1: %v", err)
	}
	b2, _, err := mkToken(c.T2, c.RootSeed, true)
	if err != nil {
		return obs.Violf("cannot build T2: %v", err)
	}
	orig, err := newAuthz(b1, pub, c.Authz)
	if err != nil {
		return obs.Violf("T1 does not verify: %v", err)
	}
	snap, err := orig.SerializePolicies()
	if err != nil {
		return obs.Violf("%s: SerializePolicies on an unevaluated authorizer failed: %v", desc, err)
	}
	// the snapshot, read independently, holds the content that was added
	if ws, err := wire.DecodeSnapshot(snap); err != nil {
		return obs.Violf("%s: independent reader cannot decode the snapshot: %v", desc, err)
	} else if len(ws.Facts) != len(bridge.DedupFacts(c.Authz.Facts)) || len(ws.Rules) != len(c.Authz.Rules) || len(ws.Checks) != len(c.Authz.Checks) || len(ws.Policies) != len(c.Authz.Policies) {
		return obs.Violf("%s: snapshot holds %d facts / %d rules / %d checks / %d policies", desc, len(ws.Facts), len(ws.Rules), len(ws.Checks), len(ws.Policies))
	}

	restored, err := newAuthz(b2, pub, m.Authz{})
	if err != nil {
		return obs.Violf("T2 does not verify: %v", err)
	}
	if lerr, pan := loadSafely(restored, snap); pan != nil {
		return obs.ViolK("panic", "%s: LoadPolicies panicked: %v", desc, pan)
	} else if lerr != nil {
		return obs.Violf("%s: LoadPolicies of a snapshot the library produced failed: %v", desc, lerr)
	}
	direct, err := newAuthz(b2, pub, c.Authz)
	if err != nil {
		return obs.Violf("T2 does not verify: %v", err)
	}
	o1, o2 := bridge.Authorize(restored), bridge.Authorize(direct)
	if o1.String() != o2.String() {
		return obs.Violf("%s: restored authorizer gives %s (%s), the same content added directly gives %s (%s)", desc, o1, o1.Err, o2, o2.Err)
	}
	for _, q := range c.Queries {
		if k1, k2 := queryKey(restored, q), queryKey(direct, q); k1 != k2 {
			return obs.Violf("%s: query %s: restored {%s}, direct {%s}", desc, q.Text(), k1, k2)
		}
	}

	// saving is refused once the authorizer has been evaluated
	// options given when the receiving authorizer was created (a fact limit of 1 here) still hold
	// after LoadPolicies, as they do when the same content is added directly
	{
		lim := biscuit.WithWorldOptions(datalog.WithMaxFacts(1), datalog.WithMaxDuration(bridge.LongDuration))
		r2, e1 := b2.AuthorizerFor(biscuit.WithSingularRootPublicKey(pub), lim)
		d2, e2 := b2.AuthorizerFor(biscuit.WithSingularRootPublicKey(pub), lim)
		if e1 != nil || e2 != nil {
			return obs.Violf("T2 does not verify: %v %v", e1, e2)
		}
		if lerr, pan := loadSafely(r2, snap); pan == nil && lerr == nil {
			bridge.AddAuthz(d2, c.Authz)
			if o1, o2 := bridge.Authorize(r2), bridge.Authorize(d2); o1.Class != o2.Class {
				return obs.ViolK("options-after-load", "%s, both authorizers created with a fact limit of 1: restored gives %s, the same content added directly gives %s", desc, o1, o2)
			}
		}
	}

	// a long-lived authorizer that serves one request per snapshot: another snapshot (other strings)
	// loaded and evaluated first, Reset, then this one
	other := m.Authz{Facts: []m.Pred{m.P("c18_other", m.Str("c18_first"), m.Str("c18_second"))}, Policies: c.Authz.Policies}
	if src2, err := newAuthz(b1, pub, other); err == nil {
		if snap2, err := src2.SerializePolicies(); err == nil {
			again, err := newAuthz(b2, pub, m.Authz{})
			if err != nil {
				return obs.Violf("T2 does not verify: %v", err)
			}
			if lerr, pan := loadSafely(again, snap2); pan != nil || lerr != nil {
				return obs.Violf("%s: LoadPolicies of a library-made snapshot failed: %v %v", desc, lerr, pan)
			}
			_ = bridge.Authorize(again)
			again.Reset()
			if lerr, pan := loadSafely(again, snap); pan != nil || lerr != nil {
				return obs.Violf("%s: LoadPolicies after Reset failed: %v %v", desc, lerr, pan)
			}
			if o3 := bridge.Authorize(again); o3.String() != o2.String() {
				return obs.ViolK("load-after-reset", "%s: loaded into an authorizer that had served another snapshot and was Reset, the outcome is %s (%s); loaded into a new authorizer it is %s", desc, o3, o3.Err, o2)
			}
			for _, q := range c.Queries {
				if k1, k2 := queryKey(again, q), queryKey(direct, q); k1 != k2 {
					return obs.ViolK("load-after-reset", "%s: query %s on an authorizer that had served another snapshot and was Reset: {%s}; on a new one: {%s}", desc, q.Text(), k1, k2)
				}
			}
		}
	}

	// ... and having been saved does not change the original: it still behaves like an authorizer
	// with the same content that was never saved
	twin, err := newAuthz(b1, pub, c.Authz)
	if err != nil {
		return obs.Violf("T1 does not verify: %v", err)
	}
	if c.Dirty == "query" && len(c.Queries) > 0 {
		if k1, k2 := queryKey(orig, c.Queries[0]), queryKey(twin, c.Queries[0]); k1 != k2 {
			return obs.ViolK("saved-original", "%s: query %s on the authorizer that was saved: {%s}; on an authorizer with the same content that was never saved: {%s}", desc, c.Queries[0].Text(), k1, k2)
		}
	} else {
		if o1, o2 := bridge.Authorize(orig), bridge.Authorize(twin); o1.String() != o2.String() {
			return obs.ViolK("saved-original", "%s: the authorizer that was saved gives %s (%s); an authorizer with the same content that was never saved gives %s (%s)", desc, o1, o1.Err, o2, o2.Err)
		}
		for _, q := range c.Queries {
			if k1, k2 := queryKey(orig, q), queryKey(twin, q); k1 != k2 {
				return obs.ViolK("saved-original", "%s: query %s after Authorize on the authorizer that was saved: {%s}; never saved: {%s}", desc, q.Text(), k1, k2)
			}
		}
	}
	if _, err := orig.SerializePolicies(); err == nil {
		return obs.Violf("%s: SerializePolicies succeeded after the authorizer was evaluated (%s)", desc, c.Dirty)
	}
	// loading a snapshot into an evaluated authorizer does not make it unevaluated
	if lerr, pan := loadSafely(orig, snap); pan != nil {
		return obs.ViolK("panic", "%s: LoadPolicies on the evaluated authorizer panicked: %v", desc, pan)
	} else if lerr == nil {
		if _, err := orig.SerializePolicies(); err == nil {
			return obs.ViolK("save-after-load", "%s: the authorizer was evaluated (%s), then loaded with its own snapshot: SerializePolicies succeeds although the authorizer has been evaluated", desc, c.Dirty)
		}
	}

	// malformed snapshots: an error, never a panic
	good := snapshotFromModel(c.Authz)
	var bad []byte
	mustErr := true
	switch c.Bad {
	case "random":
		bad = c.Raw
		mustErr = false // random bytes may happen to be a valid (e.g. empty-ish) message: totality only
	case "flip":
		bad = append([]byte{}, snap...)
		flipBit(bad, c.Bit)
		mustErr = false
	case "truncate":
		if len(snap) > 0 {
			bad = append([]byte{}, snap[:c.Bit%len(snap)]...)
		}
		mustErr = false
	case "empty":
		bad = []byte{}
	case "version-absent":
		good.Version = nil
		bad = good.Encode()
	case "version-2", "version-4":
		v := uint32(2)
		if c.Bad == "version-4" {
			v = 4
		}
		good.Version = &v
		bad = good.Encode()
	case "policy-without-kind":
		good.Policies = append(good.Policies, wire.Policy{KindAbsent: true})
		bad = good.Encode()
	case "policy-unknown-kind":
		good.Policies = append(good.Policies, wire.Policy{Kind: 7})
		bad = good.Encode()
	case "fact-with-variable-set":
		good.Facts = append(good.Facts, wire.Pred{Name: 0, Terms: []wire.Term{{K: wire.TSet, Set: []wire.Term{{K: wire.TVar, U: 0}}}}})
		bad = good.Encode()
	case "op-without-kind":
		good.Rules = append(good.Rules, wire.Rule{Head: wire.Pred{Name: 0}, Exprs: [][]wire.Op{{{Kind: 1, Val: wire.Term{K: wire.TBool, Bo: true}}, {Kind: 2, Code: 0}}}})
		bad = good.Encode()
		// strip the kind: re-encode that operator as an empty OpUnary message
		// rules(4){ head(1){name(1)=0} expressions(3){ ops(1){ unary(2){} } } }: an OpUnary message without kind
		bad = append(bad, 0x22, 0x0a, 0x0a, 0x02, 0x08, 0x00, 0x1a, 0x04, 0x0a, 0x02, 0x12, 0x00)
	case "term-without-content":
		good.Facts = append(good.Facts, wire.Pred{Name: 0, Terms: []wire.Term{{K: wire.TNone}}})
		bad = good.Encode()
	case "index-out-of-range":
		good.Checks = append(good.Checks, wire.Check{Queries: []wire.Rule{{Head: wire.Pred{Name: 27}, Body: []wire.Pred{{Name: 1 << 63, Terms: []wire.Term{{K: wire.TStr, U: 1<<64 - 1}, {K: wire.TVar, U: 1<<32 - 1}}}}}}})
		bad = good.Encode()
		mustErr = false // indexes are data: must not panic, now or at evaluation
	}
	victim, err := newAuthz(b2, pub, m.Authz{})
	if err != nil {
		return obs.Violf("T2 does not verify: %v", err)
	}
	lerr, pan := loadSafely(victim, bad)
	rec.Label("bad:" + c.Bad)
	if pan != nil {
		return obs.ViolK("panic", "%s: LoadPolicies(%s snapshot) panicked: %v", desc, c.Bad, pan)
	}
	if mustErr && lerr == nil {
		return obs.Violf("%s: LoadPolicies accepted a malformed snapshot (%s)", desc, c.Bad)
	}
	if lerr == nil {
		// whatever was loaded must be usable without panicking
		if o := bridge.Authorize(victim); o.Class == ref.Panic {
			return obs.ViolK("panic", "%s: Authorize after loading a %s snapshot panicked: %s", desc, c.Bad, o.Err)
		}
		func() {
			defer func() { _ = recover() }()
			_ = victim.PrintWorld()
		}()
	}

	freshSym := false
	for _, s := range blockStrings(m.Block{Facts: c.Authz.Facts, Rules: c.Authz.Rules, Checks: c.Authz.Checks}) {
		if !isDefaultSymbol(s) {
			freshSym = true
		}
	}
	rec.Label("outcome:" + o2.Class)
	if freshSym && len(c.Authz.Checks) >= 1 && len(c.Authz.Policies) >= 2 && o2.Class != ref.NoMatch {
		if rec.NonTrivial(c.T1.Key() + c.T2.Key() + c.Authz.Key()) {
			rec.Sample(map[string]any{"authorizer": c.Authz.Text(), "saved_on": c.T1.Text(), "loaded_on": c.T2.Text(), "outcome": o2.String(), "snapshot_bytes": len(snap)})
		}
	}
	return nil
}

func drawC18(t *rapid.T) C18Case {
	cfg := gen.DefaultProg
	cfg.MaxBlocks = 1
	cfg.MaxChecks = 3
	cfg.PCheckSat = 92
	cfg.PPolicyMatch = 55
	p := gen.SmallProfile
	p.Strs = append(append([]string{}, p.Strs...), "café", "user", "owner", "zeta")
	sc := gen.DrawScenario(t, cfg, p)
	c := C18Case{T2: sc.Token, Authz: sc.Authz, RootSeed: rapid.Uint64Range(1, 1<<20).Draw(t, "root")}
	// T1: another token with its own symbols
	other := gen.DrawSchema(t, p, 1, 3)
	c.T1 = m.Token{Blocks: []m.Block{drawSimpleBlock(t, other)}}
	if rapid.Bool().Draw(t, "t1later") {
		c.T1.Blocks = append(c.T1.Blocks, drawSimpleBlock(t, other))
	}
	if rapid.IntRange(0, 3).Draw(t, "sametoken") == 0 {
		c.T1 = c.T2
	}
	if rapid.IntRange(0, 2).Draw(t, "t1.clash") == 2 {
		// the token where the snapshot is taken uses the authorizer's predicate names with other
		// term types: evaluating the original there may fail inside a rule (the save must then be refused too)
		for _, sig := range sc.Schema.Preds {
			f := m.Pred{Name: sig.Name}
			for range sig.Cols {
				f.Terms = append(f.Terms, m.Str(rapid.SampledFrom([]string{"a", "zeta"}).Draw(t, "t1.clashv")))
			}
			c.T1.Blocks[0].Facts = bridge.DedupFacts(append(append([]m.Pred{}, c.T1.Blocks[0].Facts...), f))
		}
	}
	closure := gen.AuthClosure(sc.Token, sc.Authz)
	for i := 0; i < 3; i++ {
		c.Queries = append(c.Queries, sc.Schema.DrawPanelQuery(t, closure))
	}
	c.Dirty = rapid.SampledFrom([]string{"authorize", "query"}).Draw(t, "dirty")
	c.Bad = c18Bad[spreadInt(t, "bad", len(c18Bad))]
	c.Bit = rapid.IntRange(0, 1<<14).Draw(t, "bit")
	if c.Bad == "random" {
		c.Raw = rapid.SliceOfN(rapid.Byte(), 0, 40).Draw(t, "raw")
	}
	return c
}

func TestC18(t *testing.T) {
	rec := obs.New("C18")
	defer rec.Flush(true)
	rec.SetExtra("rule", "rapid: goal-directed authorizer content (all term types with non-empty sets, default and fresh symbols, 0-3 checks, 0-4 ordered policies of both kinds), token T1 with its own symbols where the snapshot is taken, token T2 (reloaded from bytes) where it is loaded, a panel of 3 queries, and one malformed snapshot (random bytes, bit flip, truncation, empty, version absent/2/4, policy without or with unknown kind, set of variables, operator without kind, term without content, out-of-range indexes; written with the independent writer). Oracle: the snapshot decodes independently to the right number of elements; fresh authorizer for T2 + LoadPolicies has the same Authorize class and panel answers as fresh authorizer for T2 + the content added directly; a fact limit of 1 given when the receiving authorizer was created holds after LoadPolicies as it does for content added directly; the same holds for an authorizer that first served another snapshot (other strings) and was Reset; the authorizer that was saved, evaluated afterwards, gives the same outcome and panel answers as a never-saved twin; SerializePolicies fails after Authorize or Query, and still fails after the evaluated authorizer has loaded its own snapshot; LoadPolicies on malformed bytes returns an error (where the bytes are certainly malformed) and never panics, nor does a later Authorize. Non-trivial = a fresh symbol, >= 1 check, >= 2 policies and an outcome other than no-matching-policy; distinct by (T1, T2, content).")
	rec.SetExtra("assumptions", []string{"non-empty sets only: empty sets are refused by the encoder by design"})
	harness.RunWith(t, harness.Spec[C18Case]{ID: "C18", Draw: drawC18, Check: checkC18}, rec)
}
