package props

import (
	"fmt"
	"testing"

	"pgregory.net/rapid"

	"verif/internal/bridge"
	"verif/internal/gen"
	"verif/internal/harness"
	m "verif/internal/model"
	"verif/internal/obs"
	"verif/internal/ref"
)

// C12 — authorization is deterministic and independent of presentation order.

type C12Case struct {
	Token    m.Token  `json:"token"`
	Authz    m.Authz  `json:"authz"`
	Queries  []m.Rule `json:"queries"`
	VToken   m.Token  `json:"v_token"` // the presentation variant
	VAuthz   m.Authz  `json:"v_authz"`
	VQueries []m.Rule `json:"v_queries"`
	Kinds    []string `json:"kinds"`  // transformations applied
	Repeat   int      `json:"repeat"` // extra Authorize calls on the same authorizer
	RootSeed uint64   `json:"root_seed"`
	Reload   bool     `json:"reload"`
}

func permuted[T any](t *rapid.T, xs []T, label string) ([]T, bool) {
	if len(xs) < 2 {
		return xs, false
	}
	p := rapid.Permutation(seqInts(len(xs))).Draw(t, label)
	out := make([]T, len(xs))
	changed := false
	for i, j := range p {
		out[i] = xs[j]
		if i != j {
			changed = true
		}
	}
	return out, changed
}

var renameTargets = []string{"read", "resource", "query", "a", "file1", "b", "zz", "v9", "0", "right", "time", "n1", "n2", "n3", "n4", "n5", "n6", "n7", "n8"}

func renameTerm(x m.Term, mp map[string]string) m.Term {
	if x.K == m.KVar {
		if n, ok := mp[x.S]; ok {
			return m.Var(n)
		}
	}
	return x
}

func renameExpr(e *m.Expr, mp map[string]string) *m.Expr {
	out := &m.Expr{Op: e.Op}
	if e.Val != nil {
		v := renameTerm(*e.Val, mp)
		out.Val = &v
	}
	for _, a := range e.Args {
		out.Args = append(out.Args, renameExpr(a, mp))
	}
	return out
}

func ruleVars(r m.Rule) []string {
	seen := map[string]bool{}
	var out []string
	add := func(x m.Term) {
		if x.K == m.KVar && !seen[x.S] {
			seen[x.S] = true
			out = append(out, x.S)
		}
	}
	for _, x := range r.Head.Terms {
		add(x)
	}
	for _, p := range r.Body {
		for _, x := range p.Terms {
			add(x)
		}
	}
	for _, e := range r.Exprs {
		for _, n := range e.Vars() {
			add(m.Var(n))
		}
	}
	return out
}

// renameRule applies a drawn bijection on the variable names of one rule.
func renameRule(t *rapid.T, r m.Rule) (m.Rule, bool) {
	vs := ruleVars(r)
	if len(vs) == 0 {
		return r, false
	}
	targets := rapid.Permutation(renameTargets).Draw(t, "ren.targets")
	mp := map[string]string{}
	for i, v := range vs {
		mp[v] = targets[i%len(targets)]
		if i >= len(targets) {
			mp[v] = fmt.Sprintf("%s_%d", targets[i%len(targets)], i)
		}
	}
	out := m.Rule{Head: m.Pred{Name: r.Head.Name}}
	for _, x := range r.Head.Terms {
		out.Head.Terms = append(out.Head.Terms, renameTerm(x, mp))
	}
	for _, p := range r.Body {
		np := m.Pred{Name: p.Name}
		for _, x := range p.Terms {
			np.Terms = append(np.Terms, renameTerm(x, mp))
		}
		out.Body = append(out.Body, np)
	}
	for _, e := range r.Exprs {
		out.Exprs = append(out.Exprs, renameExpr(e, mp))
	}
	return out, true
}

func mapRules(t *rapid.T, rs []m.Rule, f func(*rapid.T, m.Rule) (m.Rule, bool)) ([]m.Rule, bool) {
	var out []m.Rule
	ch := false
	for _, r := range rs {
		nr, c := f(t, r)
		out = append(out, nr)
		ch = ch || c
	}
	return out, ch
}

func mapChecks(t *rapid.T, cs []m.Check, f func(*rapid.T, m.Rule) (m.Rule, bool)) ([]m.Check, bool) {
	var out []m.Check
	ch := false
	for _, c := range cs {
		qs, c2 := mapRules(t, c.Queries, f)
		out = append(out, m.Check{Queries: qs})
		ch = ch || c2
	}
	return out, ch
}

type c12Obs struct {
	classes []string // one per Authorize call
	queries []string
}

func observeC12(tok m.Token, az m.Authz, qs []m.Rule, c C12Case) (c12Obs, error) {
	var o c12Obs
	b, pub, err := mkToken(tok, c.RootSeed, c.Reload)
	if err != nil {
		return o, err
	}
	a, err := newAuthz(b, pub, az)
	if err != nil {
		return o, err
	}
	for i := 0; i <= c.Repeat; i++ {
		out := bridge.Authorize(a)
		o.classes = append(o.classes, out.String())
	}
	for _, q := range qs {
		o.queries = append(o.queries, queryKey(a, q))
	}
	return o, nil
}

func checkC12(c C12Case, rec *obs.Recorder) *obs.Violation {
	want := ref.Authorize(c.Token, c.Authz)
	if want.Ambiguous || want.Diverged || want.Is(ref.Error) {
		rec.OutOfFragment()
		return nil
	}
	desc := scenarioText(c.Token, c.Authz)
	base, err := observeC12(c.Token, c.Authz, c.Queries, c)
	if err != nil {
		return obs.Violf("%s: %v", desc, err)
	}
	for i, cl := range base.classes {
		if cl != base.classes[0] {
			return obs.Violf("%s: Authorize call %d returns %s, the first call returned %s", desc, i+1, cl, base.classes[0])
		}
	}
	vr, err := observeC12(c.VToken, c.VAuthz, c.VQueries, c)
	if err != nil {
		return obs.Violf("variant of %s: %v", desc, err)
	}
	vdesc := scenarioText(c.VToken, c.VAuthz)
	for i := range vr.classes {
		if vr.classes[i] != base.classes[0] {
			return obs.Violf("%s gives %s, but its presentation variant %v\n%s\ngives %s (call %d)", desc, base.classes[0], c.Kinds, vdesc, vr.classes[i], i+1)
		}
	}
	for i := range base.queries {
		if base.queries[i] != vr.queries[i] {
			return obs.Violf("%s: query %s gives {%s}; in the variant %v\n%s\nit gives {%s}", desc, c.Queries[i].Text(), base.queries[i], c.Kinds, vdesc, vr.queries[i])
		}
	}
	for _, k := range c.Kinds {
		rec.Label("variant:" + k)
	}
	if c.Repeat > 0 {
		rec.Label("repeat")
	}
	rec.Label("verdict:" + want.Single())
	differs := c.Token.Key() != c.VToken.Key() || c.Authz.Key() != c.VAuthz.Key()
	derives := want.AuthFacts != nil && want.AuthFacts.Len() > len(bridge.DedupFacts(append(append([]m.Pred{}, c.Authz.Facts...), c.Token.Blocks[0].Facts...)))
	if differs && derives && rec.NonTrivial(c.Token.Key()+c.Authz.Key()+c.VToken.Key()+c.VAuthz.Key()) {
		rec.Sample(map[string]any{"base": desc, "variant": vdesc, "kinds": c.Kinds, "verdict": base.classes[0], "repeat": c.Repeat})
	}
	return nil
}

func drawC12(t *rapid.T) C12Case {
	cfg := gen.DefaultProg
	cfg.MaxBlocks = 2
	cfg.PCheckSat = 90
	sc := gen.DrawScenario(t, cfg, gen.SmallProfile)
	c := C12Case{Token: sc.Token, Authz: sc.Authz, RootSeed: rapid.Uint64Range(1, 1<<20).Draw(t, "root"), Reload: rapid.Bool().Draw(t, "reload")}
	closure := gen.AuthClosure(sc.Token, sc.Authz)
	for i := 0; i < 3; i++ {
		c.Queries = append(c.Queries, sc.Schema.DrawPanelQuery(t, closure))
	}
	c.Repeat = rapid.SampledFrom([]int{0, 0, 1, 2}).Draw(t, "repeat")
	// build the variant
	vt := m.Token{}
	va := m.Authz{Policies: c.Authz.Policies} // policy order is part of the input: never permuted
	kinds := map[string]bool{}
	doPerm := rapid.IntRange(0, 3).Draw(t, "doperm") > 0
	doRename := rapid.IntRange(0, 2).Draw(t, "dorename") == 0
	rn := func(t *rapid.T, r m.Rule) (m.Rule, bool) {
		if doRename {
			return renameRule(t, r)
		}
		return r, false
	}
	for _, b := range c.Token.Blocks {
		nb := m.Block{Context: b.Context, Facts: b.Facts}
		var ch bool
		nb.Rules, ch = mapRules(t, b.Rules, rn)
		kinds["rename"] = kinds["rename"] || ch
		nb.Checks, ch = mapChecks(t, b.Checks, rn)
		kinds["rename"] = kinds["rename"] || ch
		if doPerm {
			nb.Facts, ch = permuted(t, nb.Facts, "perm.facts")
			kinds["permute-facts"] = kinds["permute-facts"] || ch
			nb.Rules, ch = permuted(t, nb.Rules, "perm.rules")
			kinds["permute-rules"] = kinds["permute-rules"] || ch
			nb.Checks, ch = permuted(t, nb.Checks, "perm.checks")
			kinds["permute-checks"] = kinds["permute-checks"] || ch
			for i := range nb.Checks {
				nb.Checks[i].Queries, ch = permuted(t, nb.Checks[i].Queries, "perm.queries")
				kinds["permute-queries"] = kinds["permute-queries"] || ch
			}
		}
		vt.Blocks = append(vt.Blocks, nb)
	}
	var ch bool
	va.Facts = c.Authz.Facts
	va.Rules, ch = mapRules(t, c.Authz.Rules, rn)
	kinds["rename"] = kinds["rename"] || ch
	va.Checks, ch = mapChecks(t, c.Authz.Checks, rn)
	kinds["rename"] = kinds["rename"] || ch
	if doRename {
		var np []m.Policy
		for _, p := range c.Authz.Policies {
			qs, _ := mapRules(t, p.Queries, rn)
			np = append(np, m.Policy{Allow: p.Allow, Queries: qs})
		}
		va.Policies = np
	}
	if doPerm {
		va.Facts, ch = permuted(t, va.Facts, "perm.azfacts")
		kinds["permute-facts"] = kinds["permute-facts"] || ch
		va.Rules, ch = permuted(t, va.Rules, "perm.azrules")
		kinds["permute-rules"] = kinds["permute-rules"] || ch
		va.Checks, ch = permuted(t, va.Checks, "perm.azchecks")
		kinds["permute-checks"] = kinds["permute-checks"] || ch
		for i := range va.Checks {
			va.Checks[i].Queries, ch = permuted(t, va.Checks[i].Queries, "perm.azqueries")
			kinds["permute-queries"] = kinds["permute-queries"] || ch
		}
	}
	// duplication where the API admits it: an authorizer fact twice, or an authorizer fact equal to a token fact
	switch rapid.IntRange(0, 3).Draw(t, "dup") {
	case 0:
		if len(va.Facts) > 0 {
			va.Facts = append(va.Facts, va.Facts[rapid.IntRange(0, len(va.Facts)-1).Draw(t, "dup.i")])
			kinds["duplicate-authorizer-fact"] = true
		}
	case 1:
		if fs := c.Token.Blocks[0].Facts; len(fs) > 0 {
			va.Facts = append(va.Facts, fs[rapid.IntRange(0, len(fs)-1).Draw(t, "dup.j")])
			kinds["authorizer-fact-equal-to-token-fact"] = true
		}
	}
	c.VQueries, _ = mapRules(t, c.Queries, rn)
	c.VToken, c.VAuthz = vt, va
	for _, k := range []string{"permute-facts", "permute-rules", "permute-checks", "permute-queries", "rename", "duplicate-authorizer-fact", "authorizer-fact-equal-to-token-fact"} {
		if kinds[k] {
			c.Kinds = append(c.Kinds, k)
		}
	}
	return c
}

func TestC12(t *testing.T) {
	rec := obs.New("C12")
	defer rec.Flush(true)
	rec.SetExtra("rule", "rapid: goal-directed scenario in the error-free fragment plus a presentation variant built only from the transformations the property lists: permutation of facts / rules / checks inside each holder (authority, each later block, authorizer) and of the queries inside a check, a drawn bijective renaming of the variables of every rule and query (targets include default symbols and strings used as constants), an authorizer fact added twice, an authorizer fact equal to a token fact, and 0-2 extra Authorize calls on the same authorizer. Policy order, body order and expression order are left alone. Oracle: outcome class of every call and every panel query answer are equal between base and variant. Non-trivial = the variant differs from the base and the authority-level closure derives at least one fact; distinct by (base, variant).")
	rec.SetExtra("assumptions", []string{"scenarios whose reference verdict is an evaluation error or order-dependent are outside the fragment"})
	harness.RunWith(t, harness.Spec[C12Case]{ID: "C12", Draw: drawC12, Check: checkC12}, rec)
}
