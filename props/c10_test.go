package props

import (
	"bufio"
	"crypto/ed25519"
	"encoding/json"
	"fmt"
	"os"
	"os/exec"
	"runtime/debug"
	"strings"
	"testing"
	"time"

	biscuit "github.com/biscuit-auth/biscuit-go/v2"
	"github.com/biscuit-auth/biscuit-go/v2/datalog"
	"pgregory.net/rapid"

	"verif/internal/bridge"
	"verif/internal/gen"
	"verif/internal/harness"
	m "verif/internal/model"
	"verif/internal/obs"
	"verif/internal/wire"
)

// C10 — untrusted token bytes can never crash the verifier.

type C10Case struct {
	Layer string  `json:"layer"` // struct | bytes | mutate
	Desc  string  `json:"desc"`
	Token []byte  `json:"token"`
	Authz m.Authz `json:"authz"`
	N     uint64  `json:"n"` // attacker root key number
}

type c10Reply struct {
	OK         bool   `json:"ok"`
	Panic      string `json:"panic,omitempty"`
	Unmarshals bool   `json:"unmarshals"`
	Verifies   bool   `json:"verifies"`
	Authorized string `json:"authorized,omitempty"`
}

func c10WorldOpts() biscuit.AuthorizerOption {
	return biscuit.WithWorldOptions(datalog.WithMaxDuration(150*time.Millisecond), datalog.WithMaxFacts(400), datalog.WithMaxIterations(30))
}

// exerciseToken runs every operation of the property on the bytes. A panic on
// the calling goroutine is recovered and reported; a panic on a goroutine owned
// by the library kills the process (which is why callers run this in a worker).
func exerciseToken(c C10Case) (rep c10Reply) {
	defer func() {
		if p := recover(); p != nil {
			rep.Panic = fmt.Sprintf("%v\n%s", p, trimStack(debug.Stack()))
		}
	}()
	apub, _, _ := attackerKey(c.N)
	// the other ways of reading the same bytes: an Unmarshaler with a table of its own, and one
	// that was never given a table (an error, not a crash)
	_, _ = (&biscuit.Unmarshaler{Symbols: &datalog.SymbolTable{"own_base"}}).Unmarshal(append([]byte{}, c.Token...))
	_, _ = (&biscuit.Unmarshaler{}).Unmarshal(append([]byte{}, c.Token...))
	tok, err := biscuit.Unmarshal(c.Token)
	if err != nil || tok == nil {
		rep.OK = true
		return rep
	}
	rep.Unmarshals = true
	_ = tok.String()
	_ = tok.Code()
	_, _ = tok.Serialize()
	_ = tok.RevocationIds()
	_ = tok.RootKeyID()
	_ = tok.BlockCount()
	_ = tok.Checks()
	_ = tok.GetContext()
	for _, f := range c.Authz.Facts {
		_, _ = tok.GetBlockID(bridge.ToFact(f))
	}
	_, _ = tok.GetBlockID(bridge.ToFact(m.P("right", m.Str("file1"), m.Str("read"))))
	rng := bridge.NewDetRand(c.N)
	bb := tok.CreateBlock()
	_ = bb.AddFact(bridge.ToFact(m.P("c10_extra", m.Str("c10_sym"), m.Int(1))))
	_ = bb.AddCheck(bridge.ToCheck(m.Check{Queries: []m.Rule{{Head: m.Pred{Name: "query"}, Body: []m.Pred{m.P("c10_extra", m.Var("x"), m.Int(1))}}}}))
	if nt, err := tok.Append(rng, bb.Build()); err == nil && nt != nil {
		_ = nt.String()
		if ser, err := nt.Serialize(); err == nil {
			if re, err := biscuit.Unmarshal(ser); err == nil {
				_ = re.String()
			}
		}
		if a, err := nt.AuthorizerFor(biscuit.WithSingularRootPublicKey(apub), c10WorldOpts()); err == nil {
			_ = a.Authorize()
		}
	}
	if st, err := tok.Seal(rng); err == nil && st != nil {
		_ = st.String()
		_, _ = st.Serialize()
		if a, err := st.AuthorizerFor(biscuit.WithSingularRootPublicKey(apub), c10WorldOpts()); err == nil {
			_ = a.Authorize()
		}
	}
	other, _ := bridge.RootKey(c.N + 12345)
	_, _ = tok.AuthorizerFor(biscuit.WithSingularRootPublicKey(other), c10WorldOpts())
	_, _ = tok.AuthorizerFor(biscuit.WithRootPublicKeys(map[uint32]ed25519.PublicKey{0: other, 1: apub}, &other), c10WorldOpts())
	// every way a verifier may be configured with 32-byte keys: no default key, empty or nil map,
	// a projection that answers nothing or fails
	_, _ = tok.AuthorizerFor(biscuit.WithRootPublicKeys(map[uint32]ed25519.PublicKey{0: other, 1: apub}, nil), c10WorldOpts())
	_, _ = tok.AuthorizerFor(biscuit.WithRootPublicKeys(map[uint32]ed25519.PublicKey{}, nil), c10WorldOpts())
	_, _ = tok.AuthorizerFor(biscuit.WithRootPublicKeys(nil, nil), c10WorldOpts())
	_, _ = tok.AuthorizerFor(biscuit.WithRootPublicKeys(nil, &apub), c10WorldOpts())
	_, _ = tok.AuthorizerFor(func(*uint32) (ed25519.PublicKey, error) { return nil, nil }, c10WorldOpts())
	_, _ = tok.AuthorizerFor(func(*uint32) (ed25519.PublicKey, error) { return nil, fmt.Errorf("no key store") }, c10WorldOpts())
	_, _ = tok.AuthorizerFor(nil, c10WorldOpts())
	if a, err := tok.Authorizer(apub); err == nil && a != nil {
		_ = a.Authorize()
	}
	a, err := tok.AuthorizerFor(biscuit.WithSingularRootPublicKey(apub), c10WorldOpts())
	if err != nil || a == nil {
		rep.OK = true
		return rep
	}
	rep.Verifies = true
	// plain authorizer first: an allow-all policy, so that every block is evaluated
	a.AddPolicy(bridge.ToPolicy(m.Policy{Allow: true, Queries: []m.Rule{{Head: m.Pred{Name: "policy"}}}}))
	rep.Authorized = bridge.Classify(a.Authorize()).Class
	_ = a.PrintWorld()
	_, _ = a.Query(bridge.ToRule(m.Rule{Head: m.P("q", m.Var("x")), Body: []m.Pred{m.P("right", m.Var("x"), m.Var("y"))}}))
	a.Reset()
	bridge.AddAuthz(a, c.Authz)
	_, _ = a.SerializePolicies()
	_ = a.Authorize()
	for _, ch := range c.Authz.Checks {
		for _, q := range ch.Queries {
			_, _ = a.Query(bridge.ToRule(q))
		}
	}
	_ = a.PrintWorld()
	_, _ = a.SerializePolicies()
	a.Reset()
	_ = a.LoadPolicies(c.Token)
	_ = a.LoadPolicies([]byte{0x10, 0x03, 0x1a, 0x04, 0x0a, 0x02, 0x08, 0x00})
	_ = a.Authorize()
	rep.OK = true
	return rep
}

// ---- worker child ----

func init() {
	workers["c10"] = func() int {
		out := os.NewFile(3, "replies")
		if out == nil {
			return 65
		}
		w := bufio.NewWriter(out)
		sc := bufio.NewScanner(os.Stdin)
		sc.Buffer(make([]byte, 1<<20), 64<<20)
		for sc.Scan() {
			var c C10Case
			if err := json.Unmarshal(sc.Bytes(), &c); err != nil {
				fmt.Fprintf(w, "{\"ok\":false,\"panic\":\"bad case: %s\"}\n", strings.ReplaceAll(err.Error(), "\"", "'"))
				w.Flush()
				continue
			}
			rep := exerciseToken(c)
			b, _ := json.Marshal(rep)
			w.Write(b)
			w.WriteByte('\n')
			w.Flush()
		}
		return 0
	}
}

// ---- parent side ----

type c10Worker struct {
	cmd   *exec.Cmd
	in    *bufio.Writer
	inRaw interface{ Close() error }
	out   *bufio.Reader
	outF  *os.File
	lines chan string
}

func startWorker(mode string) (*c10Worker, error) {
	bin := os.Getenv("VERIF_BIN")
	if bin == "" {
		bin = os.Args[0]
	}
	cmd := exec.Command(bin, "-test.run", "^$")
	cmd.Env = append(os.Environ(), "VERIF_WORKER="+mode)
	stdin, err := cmd.StdinPipe()
	if err != nil {
		return nil, err
	}
	r, wpipe, err := os.Pipe()
	if err != nil {
		return nil, err
	}
	cmd.ExtraFiles = []*os.File{wpipe}
	cmd.Stdout = nil
	cmd.Stderr = nil
	if lf := os.Getenv("VERIF_WORKER_LOG"); lf != "" {
		if f, err := os.OpenFile(lf, os.O_CREATE|os.O_APPEND|os.O_WRONLY, 0o644); err == nil {
			cmd.Stderr = f
		}
	}
	if err := cmd.Start(); err != nil {
		return nil, err
	}
	wpipe.Close()
	w := &c10Worker{cmd: cmd, in: bufio.NewWriter(stdin), inRaw: stdin, out: bufio.NewReaderSize(r, 1<<20), outF: r, lines: make(chan string, 4)}
	go func() {
		for {
			line, err := w.out.ReadString('\n')
			if err != nil {
				close(w.lines)
				return
			}
			w.lines <- line
		}
	}()
	return w, nil
}

func (w *c10Worker) stop() {
	if w == nil {
		return
	}
	_ = w.inRaw.Close()
	_ = w.cmd.Process.Kill()
	_, _ = w.cmd.Process.Wait()
	_ = w.outF.Close()
}

// call sends one case; returns the reply line, or died / timed out.
func (w *c10Worker) call(payload []byte, timeout time.Duration) (line string, died, timedOut bool) {
	w.in.Write(payload)
	w.in.WriteByte('\n')
	if err := w.in.Flush(); err != nil {
		return "", true, false
	}
	select {
	case l, ok := <-w.lines:
		if !ok {
			return "", true, false
		}
		return l, false, false
	case <-time.After(timeout):
		return "", false, true
	}
}

var c10W *c10Worker

func checkC10(c C10Case, rec *obs.Recorder) *obs.Violation {
	if os.Getenv("VERIF_C10_INPROCESS") != "" {
		rep := exerciseToken(c)
		if rep.Panic != "" {
			return obs.ViolK("panic", "%s: panic: %s", c.Desc, rep.Panic)
		}
		return nil
	}
	if c10W == nil {
		w, err := startWorker("c10")
		if err != nil {
			panic("cannot start worker: " + err.Error())
		}
		c10W = w
	}
	payload, _ := json.Marshal(c)
	line, died, timedOut := c10W.call(payload, 20*time.Second)
	if timedOut {
		c10W.stop()
		c10W = nil
		rec.Label("worker-timeout(inconclusive)")
		return nil
	}
	if died {
		c10W.stop()
		c10W = nil
		return obs.ViolK("death", "%s: the worker process died while handling this token (a panic on a goroutine owned by the library, or a fatal error)", c.Desc)
	}
	var rep c10Reply
	if err := json.Unmarshal([]byte(line), &rep); err != nil {
		return obs.Violf("harness: bad reply %q", line)
	}
	rec.Label("layer:" + c.Layer)
	if rep.Unmarshals {
		rec.Label("unmarshals")
	}
	if rep.Verifies {
		rec.Label("verifies-under-attacker-root")
		rec.Label("authorize:" + rep.Authorized)
		if rec.NonTrivial(fmt.Sprintf("%x", obs.Hash(string(c.Token)+c.Authz.Key()))) {
			rec.Sample(map[string]any{"layer": c.Layer, "desc": c.Desc, "token_bytes": len(c.Token), "authorize": rep.Authorized})
		}
	}
	if rep.Panic != "" {
		return obs.ViolK("panic", "%s: panic: %s", c.Desc, rep.Panic)
	}
	return nil
}

// ---- generators ----

// c10Invalid: whether the current case may contain constructs Unmarshal must reject
// (set from a rapid draw at the start of every case)
var c10Invalid bool

var hostileIndexes = []uint64{0, 1, 27, 28, 29, 1023, 1024, 1025, 1026, 1030, 1 << 31, 1<<32 - 1, 1 << 32, 1<<32 + 1024, 1 << 63, 1<<63 + 1024, 1<<64 - 1}

func drawIndex(t *rapid.T, label string, tableLen int) uint64 {
	switch rapid.IntRange(0, 9).Draw(t, label+".cls") {
	case 0, 1, 2:
		return rapid.SampledFrom(hostileIndexes).Draw(t, label+".h")
	case 3:
		return uint64(1024 + tableLen) // one past the table
	case 4, 5:
		return uint64(rapid.IntRange(0, 27).Draw(t, label+".d"))
	default:
		if tableLen > 0 {
			return uint64(1024 + rapid.IntRange(0, tableLen-1).Draw(t, label+".t"))
		}
		return uint64(rapid.IntRange(0, 27).Draw(t, label+".d2"))
	}
}

func drawWireTerm(t *rapid.T, tableLen int, depth int, allowVar bool) wire.Term {
	k := rapid.IntRange(0, 11).Draw(t, "wt.kind")
	switch {
	case k == 0 && allowVar:
		return wire.Term{K: wire.TVar, U: drawIndex(t, "wt.var", tableLen)}
	case k <= 2:
		return wire.Term{K: wire.TInt, I: rapid.SampledFrom([]int64{0, 1, -1, 2, 1<<63 - 1, -1 << 63, 1 << 32}).Draw(t, "wt.i")}
	case k <= 5:
		return wire.Term{K: wire.TStr, U: drawIndex(t, "wt.str", tableLen)}
	case k == 6:
		return wire.Term{K: wire.TDate, U: rapid.SampledFrom([]uint64{0, 1, 1 << 32, 1 << 62, 1<<63 - 1, 1 << 63, 1<<64 - 1}).Draw(t, "wt.d")}
	case k == 7:
		return wire.Term{K: wire.TBytes, B: rapid.SampledFrom([][]byte{{}, {0}, {0, 0xff}, {1, 2, 3}}).Draw(t, "wt.b")}
	case k == 8:
		return wire.Term{K: wire.TBool, Bo: rapid.Bool().Draw(t, "wt.bo")}
	case k <= 10 && depth == 0:
		n := rapid.SampledFrom([]int{0, 1, 1, 2, 2, 3, 3, 8, 9, 12}).Draw(t, "wt.setn")
		if n == 0 && !c10Invalid {
			n = 1
		}
		st := wire.Term{K: wire.TSet}
		first := drawWireTerm(t, tableLen, 1, false)
		for i := 0; i < n; i++ {
			e := first
			if i > 0 {
				switch {
				case c10Invalid && rapid.IntRange(0, 9).Draw(t, "wt.mixed") == 0:
					e = drawWireTerm(t, tableLen, 1, true) // maybe heterogeneous / a variable
				default:
					e = drawWireTerm(t, tableLen, 1, false)
					if e.K != first.K {
						e = first
						e.U += uint64(i)
						e.I += int64(i)
						if e.K == wire.TBytes {
							e.B = append(append([]byte{}, e.B...), byte(i))
						}
					}
				}
			}
			st.Set = append(st.Set, e)
		}
		if c10Invalid && rapid.IntRange(0, 9).Draw(t, "wt.nested") == 0 {
			st.Set = append(st.Set, wire.Term{K: wire.TSet, Set: []wire.Term{{K: wire.TInt, I: 1}}})
		}
		if c10Invalid && rapid.IntRange(0, 2).Draw(t, "wt.hollow") == 0 {
			// every element is a term message without content (all of the same "type": none)
			for i := range st.Set {
				st.Set[i] = wire.Term{K: wire.TNone}
			}
		}
		return st
	default:
		if c10Invalid && rapid.IntRange(0, 9).Draw(t, "wt.none") == 0 {
			return wire.Term{K: wire.TNone}
		}
		return wire.Term{K: wire.TInt, I: int64(rapid.IntRange(0, 3).Draw(t, "wt.small"))}
	}
}

func drawWirePred(t *rapid.T, tableLen int, allowVar bool) wire.Pred {
	p := wire.Pred{Name: drawIndex(t, "wp.name", tableLen)}
	ar := rapid.SampledFrom([]int{0, 1, 1, 2, 2, 3, 64}).Draw(t, "wp.ar")
	if ar == 64 && rapid.IntRange(0, 3).Draw(t, "wp.big") > 0 {
		ar = 2
	}
	for i := 0; i < ar; i++ {
		p.Terms = append(p.Terms, drawWireTerm(t, tableLen, 0, allowVar))
	}
	return p
}

func drawWireOps(t *rapid.T, tableLen int) []wire.Op {
	var ops []wire.Op
	switch rapid.IntRange(0, 9).Draw(t, "wo.shape") {
	case 0: // deep stack
		n := rapid.SampledFrom([]int{999, 1000, 1001, 1200}).Draw(t, "wo.n")
		for i := 0; i < n; i++ {
			ops = append(ops, wire.Op{Kind: 1, Val: wire.Term{K: wire.TInt, I: 1}})
		}
		for i := 0; i < n-1; i++ {
			ops = append(ops, wire.Op{Kind: 3, Code: 9})
		}
		return ops
	case 2, 3: // an operation between two sets of possibly different element types and sizes
		mk := func(label string) wire.Term {
			kind := rapid.SampledFrom([]wire.TKind{wire.TInt, wire.TStr, wire.TBytes, wire.TDate, wire.TBool}).Draw(t, label+".kind")
			n := rapid.SampledFrom([]int{1, 2, 3, 8, 9, 12}).Draw(t, label+".n")
			st := wire.Term{K: wire.TSet}
			for i := 0; i < n; i++ {
				e := wire.Term{K: kind, I: int64(i), U: uint64(i), B: []byte{byte(i)}, Bo: i%2 == 0}
				if kind == wire.TBool && i >= 2 {
					break
				}
				st.Set = append(st.Set, e)
			}
			return st
		}
		code := rapid.SampledFrom([]uint64{4, 5, 15, 16}).Draw(t, "wo.setop")
		return []wire.Op{{Kind: 1, Val: mk("wo.l")}, {Kind: 1, Val: mk("wo.r")}, {Kind: 3, Code: code}}
	case 4: // a string operation between two strings of the token's tables (patterns may be invalid regular expressions)
		l := wire.Term{K: wire.TStr, U: drawIndex(t, "wo.sl", tableLen)}
		r := wire.Term{K: wire.TStr, U: drawIndex(t, "wo.sr", tableLen)}
		code := rapid.SampledFrom([]uint64{8, 8, 8, 5, 6, 7, 9, 4}).Draw(t, "wo.strop")
		return []wire.Op{{Kind: 1, Val: l}, {Kind: 1, Val: r}, {Kind: 3, Code: code}}
	case 1: // plausible comparison
		return []wire.Op{{Kind: 1, Val: drawWireTerm(t, tableLen, 0, true)}, {Kind: 1, Val: drawWireTerm(t, tableLen, 0, true)},
			{Kind: 3, Code: uint64(rapid.IntRange(0, 16).Draw(t, "wo.bin"))}}
	}
	n := rapid.IntRange(0, 7).Draw(t, "wo.len")
	for i := 0; i < n; i++ {
		switch rapid.IntRange(0, 6).Draw(t, "wo.kind") {
		case 0, 1, 2:
			ops = append(ops, wire.Op{Kind: 1, Val: drawWireTerm(t, tableLen, 0, true)})
		case 3:
			codes := []int{0, 1, 2}
			if c10Invalid {
				// unknown kinds, including values that are negative as 32-bit enums (-1, MinInt32)
				codes = []int{0, 1, 2, 3, 1 << 20, -1, -2147483648, 1<<32 - 1, 1 << 31}
			}
			ops = append(ops, wire.Op{Kind: 2, Code: uint64(rapid.SampledFrom(codes).Draw(t, "wo.un"))})
		case 4, 5:
			codes := []int{0, 1, 2, 3, 4, 5, 6, 7, 8, 9, 10, 11, 12, 13, 14, 15, 16, 4, 5, 15, 16}
			if c10Invalid {
				codes = append(codes, 17, 1<<20, -1, -2147483648, 1<<32-1, 1<<31, -17)
			}
			ops = append(ops, wire.Op{Kind: 3, Code: uint64(rapid.SampledFrom(codes).Draw(t, "wo.bin"))})
		default:
			if c10Invalid && rapid.IntRange(0, 3).Draw(t, "wo.empty") == 0 {
				ops = append(ops, wire.Op{Kind: 0})
			}
		}
	}
	return ops
}

func drawWireRule(t *rapid.T, tableLen int) wire.Rule {
	r := wire.Rule{Head: drawWirePred(t, tableLen, true)}
	nb := rapid.IntRange(0, 3).Draw(t, "wr.nb")
	for i := 0; i < nb; i++ {
		r.Body = append(r.Body, drawWirePred(t, tableLen, true))
	}
	ne := rapid.IntRange(0, 2).Draw(t, "wr.ne")
	for i := 0; i < ne; i++ {
		r.Exprs = append(r.Exprs, drawWireOps(t, tableLen))
	}
	if c10Invalid && rapid.IntRange(0, 9).Draw(t, "wr.nohead") == 0 {
		r.HeadAbsent = true
	}
	return r
}

func drawWireBlock(t *rapid.T, prior int) (*wire.Block, int) {
	b := &wire.Block{}
	ns := rapid.IntRange(0, 3).Draw(t, "wb.nsym")
	for i := 0; i < ns; i++ {
		b.Symbols = append(b.Symbols, rapid.SampledFrom([]string{"a", "b", "file1", "read", "right", "zz", "", "a", "(", "[a-", "*a", "(?P<n", "\\", "a{2,1}", "^a.*$", "\xff"}).Draw(t, "wb.sym"))
	}
	tl := prior + ns
	v := uint32(3)
	if c10Invalid && rapid.IntRange(0, 5).Draw(t, "wb.ver") == 0 {
		v = rapid.SampledFrom([]uint32{0, 2, 4, 1<<32 - 1}).Draw(t, "wb.v")
	}
	b.Version = &v
	if c10Invalid && rapid.IntRange(0, 9).Draw(t, "wb.nover") == 0 {
		b.Version = nil
	}
	if rapid.Bool().Draw(t, "wb.ctx") {
		c := rapid.SampledFrom([]string{"", "ctx", "\xff\xfe"}).Draw(t, "wb.ctxv")
		b.Context = &c
	}
	nf := rapid.IntRange(0, 4).Draw(t, "wb.nf")
	for i := 0; i < nf; i++ {
		b.Facts = append(b.Facts, drawWirePred(t, tl, rapid.IntRange(0, 5).Draw(t, "wb.varfact") == 0))
	}
	nr := rapid.IntRange(0, 3).Draw(t, "wb.nr")
	for i := 0; i < nr; i++ {
		b.Rules = append(b.Rules, drawWireRule(t, tl))
	}
	nc := rapid.IntRange(0, 2).Draw(t, "wb.nc")
	for i := 0; i < nc; i++ {
		var c wire.Check
		nq := rapid.IntRange(0, 2).Draw(t, "wb.nq")
		for j := 0; j < nq; j++ {
			c.Queries = append(c.Queries, drawWireRule(t, tl))
		}
		b.Checks = append(b.Checks, c)
	}
	if c10Invalid && rapid.IntRange(0, 9).Draw(t, "wb.nopred") == 0 {
		b.FactPredAbsent = true
	}
	return b, tl
}

// signHostile signs the chain under the attacker root, with optional envelope hostility.
func signHostile(t *rapid.T, n uint64, blocks [][]byte) ([]byte, string) {
	_, apriv, _ := attackerKey(n)
	sealed := rapid.IntRange(0, 4).Draw(t, "env.sealed") == 0
	env := wireChain(apriv, n+500, blocks, sealed)
	desc := "valid envelope"
	switch rapid.IntRange(0, 27).Draw(t, "env.hostile") {
	case 0:
		l := rapid.SampledFrom([]int{0, 3, 31, 33, 64}).Draw(t, "env.secretlen")
		if env.Proof.HasSecret {
			s := make([]byte, l)
			copy(s, env.Proof.Secret)
			env.Proof.Secret = s
			desc = fmt.Sprintf("next secret of %d bytes", l)
		}
	case 1:
		i := rapid.IntRange(0, len(blocks)-1).Draw(t, "env.i")
		l := rapid.SampledFrom([]int{0, 31, 33}).Draw(t, "env.keylen")
		k := make([]byte, l)
		copy(k, nth(env, i).NextKey)
		nth(env, i).NextKey = k
		desc = fmt.Sprintf("announced key %d of %d bytes", i, l)
	case 2:
		i := rapid.IntRange(0, len(blocks)-1).Draw(t, "env.i")
		l := rapid.SampledFrom([]int{0, 63, 65}).Draw(t, "env.siglen")
		s := make([]byte, l)
		copy(s, nth(env, i).Signature)
		nth(env, i).Signature = s
		desc = fmt.Sprintf("signature %d of %d bytes", i, l)
	case 3:
		i := rapid.IntRange(0, len(blocks)-1).Draw(t, "env.i")
		nth(env, i).Alg = rapid.SampledFrom([]uint64{1, 1 << 31, 1 << 32}).Draw(t, "env.alg")
		desc = "algorithm value"
	case 4:
		env.Proof = wire.Proof{}
		desc = "no proof content"
	case 5:
		if env.Proof.HasFinal {
			env.Proof.Final = env.Proof.Final[:rapid.SampledFrom([]int{0, 1, 63}).Draw(t, "env.finallen")]
			desc = "short seal signature"
		}
	case 6:
		id := rapid.SampledFrom([]uint32{0, 1, 1<<32 - 1}).Draw(t, "env.id")
		env.RootKeyID = &id
	case 7, 8:
		// the last block announces a key of another size and is signed consistently with it, so the
		// chain walk reaches the closing proof
		last := len(blocks) - 1
		l := rapid.SampledFrom([]int{0, 31, 33, 64}).Draw(t, "env.lastkeylen")
		k := make([]byte, l)
		copy(k, nth(env, last).NextKey)
		signer := apriv
		if last > 0 {
			_, signer, _ = attackerKey((n+500)*1000 + uint64(last-1))
		}
		nth(env, last).NextKey = k
		nth(env, last).Signature = signPayload(signer, nth(env, last).Block, 0, k)
		if !env.Proof.HasFinal {
			env.Proof = wire.Proof{HasFinal: true, Final: make([]byte, 64)}
		}
		desc = fmt.Sprintf("sealed, last announced key of %d bytes with a valid signature over it", l)
	}
	return env.Encode(), desc
}

func drawC10(t *rapid.T) C10Case {
	c := C10Case{N: rapid.Uint64Range(1, 1<<16).Draw(t, "n")}
	s := gen.DrawSchema(t, gen.SmallProfile, 1, 3)
	c.Authz = m.Authz{Facts: s.DrawFacts(t, 0, 3)}
	c.Authz.Rules = s.DrawRules(t, 0, 1, gen.DefaultRuleCfg)
	c.Authz.Checks = s.DrawChecks(t, c.Authz.Facts, 0, 1, gen.CheckCfg{PSat: 50, MaxQueries: 2})
	c.Authz.Policies = []m.Policy{{Allow: true, Queries: []m.Rule{{Head: m.Pred{Name: "policy"}}}}}
	switch rapid.IntRange(0, 9).Draw(t, "layer") {
	case 0:
		c.Layer = "bytes"
		c.Token = rapid.SliceOfN(rapid.Byte(), 0, 200).Draw(t, "raw")
		c.Desc = "random bytes"
	case 1, 2:
		c.Layer = "mutate"
		blocks := encodeBlocks([]m.Block{drawSimpleBlock(t, s), drawSimpleBlock(t, s)})
		_, apriv, _ := attackerKey(c.N)
		data := wireChain(apriv, c.N+500, blocks, rapid.Bool().Draw(t, "sealed")).Encode()
		switch rapid.IntRange(0, 3).Draw(t, "mut") {
		case 0:
			nflip := rapid.IntRange(1, 4).Draw(t, "nflip")
			for i := 0; i < nflip; i++ {
				flipBit(data, rapid.IntRange(0, 1<<14).Draw(t, "bit"))
			}
			c.Desc = "bit flips in a valid token"
		case 1:
			data = data[:rapid.IntRange(0, len(data)).Draw(t, "cut")]
			c.Desc = "truncated valid token"
		case 2:
			a, b := rapid.IntRange(0, len(data)).Draw(t, "a"), rapid.IntRange(0, len(data)).Draw(t, "b")
			if a > b {
				a, b = b, a
			}
			data = append(append(append([]byte{}, data[:b]...), data[a:b]...), data[b:]...)
			c.Desc = "spliced (duplicated segment)"
		default:
			data = append(data, data...)
			c.Desc = "token concatenated with itself (every field duplicated)"
		}
		c.Token = data
	default:
		c.Layer = "struct"
		c10Invalid = rapid.IntRange(0, 5).Draw(t, "invalid") == 0
		nb := rapid.IntRange(1, 3).Draw(t, "nblocks")
		var enc [][]byte
		prior := 0
		var parts []string
		for i := 0; i < nb; i++ {
			wb, tl := drawWireBlock(t, prior)
			prior = tl
			enc = append(enc, wb.Encode())
			parts = append(parts, fmt.Sprintf("block %d: %d symbols, %d facts, %d rules, %d checks", i, len(wb.Symbols), len(wb.Facts), len(wb.Rules), len(wb.Checks)))
		}
		var d string
		c.Token, d = signHostile(t, c.N, enc)
		c.Desc = "schema-shaped hostile token signed by the attacker root (" + d + "; " + strings.Join(parts, "; ") + ")"
	}
	return c
}

func TestC10(t *testing.T) {
	rec := obs.New("C10")
	defer rec.Flush(true)
	defer func() { c10W.stop() }()
	rec.SetExtra("rule", "rapid, three layers. struct (70 %): 1-3 schema-shaped blocks written with the independent writer and validly signed under an attacker-chosen root, with hostile fields: symbol / variable / predicate indexes from {0,27,28,1023,1024,1024+len,2^31,2^32-1,2^32,2^63,2^64-1}, sets of byte arrays / nested / empty / mixed / of content-less terms, variables in facts, unbound head variables, arity 0 and 64, operator sequences that under- and overflow the stack, unknown operator codes, absent required fields, duplicate and default symbols in tables, invalid regular expressions among the table strings, operations between sets of sizes {1,2,3,8,9,12} and different element types and between two table strings (in expression-only rules, so they are evaluated), odd versions; envelope hostility: next secret of 0/3/31/33/64 bytes, key and signature sizes (also a last announced key of another size with a valid signature over it, sealed), algorithm values, missing proof. mutate (20 %): bit flips, truncation, splice, self-concatenation of a valid token. bytes (10 %): random bytes. Every case runs in a worker process: Unmarshal, then String, Code, Serialize, RevocationIds, RootKeyID, BlockCount, Checks, GetContext, GetBlockID, CreateBlock+Build+Append, Seal, AuthorizerFor under the attacker root / another key / key maps with and without default key, empty and nil maps, projections that answer nothing or fail, a nil key source, Authorizer, Authorize, Query, PrintWorld, Reset, SerializePolicies, LoadPolicies. Violation = recovered panic or death of the worker. Non-trivial = the token unmarshals and its chain verifies under the attacker root, so evaluation is reached; distinct by (bytes, authorizer).")
	rec.SetExtra("assumptions", []string{"a worker that exceeds 20 s is inconclusive, not a violation (boundedness is C11's subject)", "evaluation limits for hostile programs: 150 ms, 400 facts, 30 iterations"})
	harness.RunWith(t, harness.Spec[C10Case]{ID: "C10", Draw: drawC10, Check: checkC10}, rec)
}

// FuzzC10Bytes: native coverage-guided fuzzing of the same operations (thorough tier only).
func FuzzC10Bytes(f *testing.F) {
	s := [][]byte{{}, {0x12, 0x00}}
	_, apriv, _ := attackerKey(1)
	for _, sealed := range []bool{false, true} {
		blocks := encodeBlocks([]m.Block{{Facts: []m.Pred{m.P("right", m.Str("file1"), m.Str("read")), m.P("s", m.SetOf(m.Bytes([]byte{1}), m.Bytes([]byte{2})))},
			Rules:  []m.Rule{{Head: m.P("r", m.Var("x")), Body: []m.Pred{m.P("right", m.Var("x"), m.Str("read"))}, Exprs: []*m.Expr{m.Bin("==", m.V(m.Var("x")), m.V(m.Str("file1")))}}},
			Checks: []m.Check{{Queries: []m.Rule{{Head: m.Pred{Name: "query"}, Body: []m.Pred{m.P("r", m.Var("y"))}}}}}},
			{Facts: []m.Pred{m.P("extra", m.Int(1<<62), m.Date(1<<40), m.Bool(true))}}})
		s = append(s, wireChain(apriv, 501, blocks, sealed).Encode())
	}
	for _, x := range s {
		f.Add(x)
	}
	az := m.Authz{Facts: []m.Pred{m.P("operation", m.Str("read"))}, Policies: []m.Policy{{Allow: true, Queries: []m.Rule{{Head: m.Pred{Name: "policy"}}}}}}
	f.Fuzz(func(t *testing.T, data []byte) {
		rep := exerciseToken(C10Case{Layer: "fuzz", Token: data, Authz: az, N: 1})
		if rep.Panic != "" {
			t.Fatalf("panic: %s", rep.Panic)
		}
	})
}
