package props

import (
	"crypto/ed25519"
	"crypto/sha256"
	"encoding/binary"
	"fmt"

	biscuit "github.com/biscuit-auth/biscuit-go/v2"
	"pgregory.net/rapid"

	"verif/internal/bridge"
	"verif/internal/gen"
	m "verif/internal/model"
	"verif/internal/ref"
	"verif/internal/wire"
)

// TokSpec describes a token to be produced through the library.
type TokSpec struct {
	RootSeed uint64    `json:"root_seed"`
	RngKey   uint64    `json:"rng_key"`
	Blocks   []m.Block `json:"blocks"`
	Sealed   bool      `json:"sealed,omitempty"`
	KeyID    *uint32   `json:"key_id,omitempty"`
	Base     []string  `json:"base,omitempty"` // custom base symbol table (biscuit.WithSymbols); empty = default
}

// reload passes a token through Serialize and the matching Unmarshaler.
func (s TokSpec) reload(tok *biscuit.Biscuit) (*biscuit.Biscuit, []byte, error) {
	ser, err := tok.Serialize()
	if err != nil {
		return nil, nil, err
	}
	re, err := bridge.UnmarshalBase(ser, s.Base)
	return re, ser, err
}

// build runs build / append* / seal? and returns every intermediate token.
func (s TokSpec) build() (final *biscuit.Biscuit, stages []*biscuit.Biscuit, pub ed25519.PublicKey, err error) {
	pub, priv := bridge.RootKey(s.RootSeed)
	rng := bridge.NewDetRand(s.RngKey)
	tok, err := bridge.BuildAuthorityBase(priv, rng, s.Blocks[0], s.KeyID, s.Base)
	if err != nil {
		return nil, nil, pub, fmt.Errorf("build authority: %w", err)
	}
	stages = append(stages, tok)
	for i, b := range s.Blocks[1:] {
		if s.RngKey%3 == 0 {
			// what a holder does with a token before attenuating it: look something up, print it,
			// authorize a request -- all with strings the token has never seen; none of it may leave
			// a trace in the token that is derived next
			probe := fmt.Sprintf("holder_probe_%d", i)
			_, _ = tok.GetBlockID(bridge.ToFact(m.P(probe, m.Str(probe+"_a"), m.Str(probe+"_b"))))
			_ = tok.String()
			if a, aerr := tok.AuthorizerFor(biscuit.WithSingularRootPublicKey(pub), bridge.WorldOpts()); aerr == nil {
				a.AddFact(bridge.ToFact(m.P(probe, m.Str(probe+"_c"))))
				a.AddRule(bridge.ToRule(m.Rule{Head: m.P(probe+"_out", m.Var("x")), Body: []m.Pred{m.P(probe, m.Var("x"))},
					Exprs: []*m.Expr{m.Bin("==", m.Bin("+", m.V(m.Var("x")), m.V(m.Str("_sfx"))), m.V(m.Str(probe+"_c_sfx")))}}))
				_ = a.Authorize()
			}
		}
		tok, err = bridge.AppendBlock(tok, rng, b)
		if err != nil {
			return nil, nil, pub, fmt.Errorf("append block %d: %w", i+1, err)
		}
		stages = append(stages, tok)
	}
	if s.Sealed {
		tok, err = tok.Seal(rng)
		if err != nil {
			return nil, nil, pub, fmt.Errorf("seal: %w", err)
		}
		stages = append(stages, tok)
	}
	return tok, stages, pub, nil
}

// drawSimpleBlock draws small block content (facts, sometimes a rule and a check).
func drawSimpleBlock(t *rapid.T, s gen.Schema) m.Block {
	b := m.Block{Facts: s.DrawFacts(t, 0, 3)}
	if rapid.IntRange(0, 3).Draw(t, "blk.rule") == 0 {
		b.Rules = s.DrawRules(t, 1, 1, gen.DefaultRuleCfg)
	}
	if rapid.IntRange(0, 2).Draw(t, "blk.check") == 0 {
		b.Checks = s.DrawChecks(t, b.Facts, 1, 1, gen.CheckCfg{PSat: 50, MaxQueries: 2})
	}
	return b
}

func drawTokSpec(t *rapid.T, s gen.Schema, maxLater int) TokSpec {
	ts := TokSpec{RootSeed: rapid.Uint64Range(1, 1<<16).Draw(t, "root"), RngKey: rapid.Uint64Range(1, 1<<32).Draw(t, "rng")}
	n := rapid.IntRange(0, maxLater).Draw(t, "nlater")
	for i := 0; i <= n; i++ {
		ts.Blocks = append(ts.Blocks, drawSimpleBlock(t, s))
	}
	ts.Sealed = rapid.IntRange(0, 3).Draw(t, "sealed") == 0
	return ts
}

// attackerKey derives a key pair the token issuer never saw.
func attackerKey(n uint64) (ed25519.PublicKey, ed25519.PrivateKey, []byte) {
	var in [8]byte
	binary.LittleEndian.PutUint64(in[:], n)
	h := sha256.Sum256(append([]byte("verif-attacker"), in[:]...))
	priv := ed25519.NewKeyFromSeed(h[:])
	return priv.Public().(ed25519.PublicKey), priv, h[:]
}

func signPayload(priv ed25519.PrivateKey, block []byte, alg uint32, nextKey []byte) []byte {
	var a [4]byte
	binary.LittleEndian.PutUint32(a[:], alg)
	msg := append(append(append([]byte{}, block...), a[:]...), nextKey...)
	return ed25519.Sign(priv, msg)
}

func sealSignature(priv ed25519.PrivateKey, last wire.SignedBlock) []byte {
	var a [4]byte
	binary.LittleEndian.PutUint32(a[:], uint32(last.Alg))
	msg := append(append(append(append([]byte{}, last.Block...), a[:]...), last.NextKey...), last.Signature...)
	return ed25519.Sign(priv, msg)
}

// wireChain signs a complete chain with this package's own signer (no library code).
func wireChain(rootPriv ed25519.PrivateKey, keySeed uint64, blocks [][]byte, sealed bool) *wire.Biscuit {
	env := &wire.Biscuit{}
	cur := rootPriv
	var lastSeed []byte
	for i, blk := range blocks {
		npub, npriv, seed := attackerKey(keySeed*1000 + uint64(i))
		sb := wire.SignedBlock{Block: blk, Alg: 0, NextKey: npub, Signature: signPayload(cur, blk, 0, npub)}
		if i == 0 {
			env.Authority = sb
		} else {
			env.Blocks = append(env.Blocks, sb)
		}
		cur, lastSeed = npriv, seed
	}
	if sealed {
		all := env.All()
		env.Proof = wire.Proof{HasFinal: true, Final: sealSignature(cur, all[len(all)-1])}
	} else {
		env.Proof = wire.Proof{HasSecret: true, Secret: lastSeed}
	}
	return env
}

// encodeBlocks encodes model blocks with the independent writer, cumulative symbols.
func encodeBlocks(blocks []m.Block) [][]byte {
	in := &wire.Interner{T: &wire.Table{}}
	var out [][]byte
	for _, b := range blocks {
		out = append(out, in.Block(b.Postfix()).Encode())
	}
	return out
}

// forkAndRecheck derives two siblings from stage k (Append of the same content
// twice) and checks that every token produced so far, and both siblings, are
// still exactly what they were: same bytes, accepted under the root, chain
// verifying per the reference, last block decoding to the appended content.
func forkAndRecheck(stages []*biscuit.Biscuit, pub ed25519.PublicKey, rngKey uint64, extra m.Block, k int) string {
	if len(stages) == 0 {
		return ""
	}
	parent := stages[k%len(stages)]
	if parent.BlockCount()+1 != len(parent.RevocationIds()) {
		return "revocation id count"
	}
	before := make([][]byte, len(stages))
	for i, st := range stages {
		b, err := st.Serialize()
		if err != nil {
			return fmt.Sprintf("stage %d does not serialize: %v", i, err)
		}
		before[i] = b
	}
	rng := bridge.NewDetRand(rngKey)
	c1, err := bridge.AppendBlock(parent, rng, extra)
	if err != nil {
		// a sealed parent refuses: nothing to fork
		return ""
	}
	c1ser, err := c1.Serialize()
	if err != nil {
		return fmt.Sprintf("first sibling does not serialize: %v", err)
	}
	c2, err := bridge.AppendBlock(parent, rng, extra)
	if err != nil {
		return fmt.Sprintf("second Append on the same parent failed: %v", err)
	}
	c2ser, err := c2.Serialize()
	if err != nil {
		return fmt.Sprintf("second sibling does not serialize: %v", err)
	}
	again, _ := c1.Serialize()
	if string(again) != string(c1ser) {
		return fmt.Sprintf("the first token appended to stage %d (a parent with %d later blocks) serializes differently after a second token was appended to the same parent", k%len(stages), parent.BlockCount())
	}
	for i, st := range stages {
		b, _ := st.Serialize()
		if string(b) != string(before[i]) {
			return fmt.Sprintf("stage %d serializes differently after two tokens were derived from stage %d", i, k%len(stages))
		}
	}
	names := []string{"first", "second"}
	for i, ser := range [][]byte{c1ser, c2ser} {
		if ok, _, _, detail, pan := libAccepts(ser, pub); pan != nil || !ok {
			return fmt.Sprintf("%s sibling appended to stage %d is not accepted under its root: %s %v", names[i], k%len(stages), detail, pan)
		}
	}
	for i, tk := range []*biscuit.Biscuit{c1, c2} {
		name := names[i]
		ser, _ := tk.Serialize()
		if r := ref.VerifyChain(ser, pub); !r.OK {
			return fmt.Sprintf("%s sibling appended to stage %d does not verify per the reference: %s", name, k%len(stages), r.Reason)
		}
		_, blocks, err := decodeContent(ser)
		if err != nil {
			return fmt.Sprintf("%s sibling: independent decoding: %v", name, err)
		}
		if got, want := blocks[len(blocks)-1].ContentKey(), extra.Postfix().ContentKey(); got != want {
			return fmt.Sprintf("%s sibling appended to stage %d: last block decodes to %s, supplied %s", name, k%len(stages), got, want)
		}
	}
	r1, r2 := c1.RevocationIds(), c2.RevocationIds()
	if len(r1) != len(r2) || len(r1) == 0 || string(r1[len(r1)-1]) == string(r2[len(r2)-1]) {
		return "siblings share their last revocation identifier"
	}
	return ""
}

// encodeBlocksForeign encodes like another implementation of the format would: the optional
// context field is left out when the context is empty (this library writes an empty string).
// Same meaning, different bytes.
func encodeBlocksForeign(blocks []m.Block) [][]byte {
	in := &wire.Interner{T: &wire.Table{}}
	var out [][]byte
	for _, b := range blocks {
		wb := in.Block(b.Postfix())
		if wb.Context != nil && *wb.Context == "" {
			wb.Context = nil
		}
		out = append(out, wb.Encode())
	}
	return out
}
