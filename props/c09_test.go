package props

import (
	"bytes"
	"crypto/ed25519"
	"fmt"
	"testing"

	biscuit "github.com/biscuit-auth/biscuit-go/v2"
	"github.com/biscuit-auth/biscuit-go/v2/datalog"
	"pgregory.net/rapid"

	"verif/internal/bridge"
	"verif/internal/gen"
	"verif/internal/harness"
	m "verif/internal/model"
	"verif/internal/obs"
	"verif/internal/ref"
	"verif/internal/wire"
)

// C09 — sealing freezes a token without changing what it authorizes.

type C09Case struct {
	Spec    TokSpec   `json:"spec"` // unsealed token
	Donor   TokSpec   `json:"donor"`
	Panel   []m.Authz `json:"panel"`
	Queries []m.Rule  `json:"queries"`
	Mut     Mutation  `json:"mut"`
	Extra   m.Block   `json:"extra"`
}

var c09Kinds = []string{"flip-seal", "flip-last-block", "flip-last-key", "flip-last-sig", "seal-from-donor", "seal-to-random-secret",
	"seal-by-attacker", "seal-over-without-signature", "drop-last-block", "swap-last-two", "append-attacker-block",
	"seal-to-64-byte-secret-with-public-key", "seal-extended", "seal-shortened", "seal-doubled", "seal-removed", "seal-removed-last-block-dropped"}

func sealMutation(c C09Case, sealed, donor *wire.Biscuit) *wire.Biscuit {
	env := sealed.Clone()
	n := 1 + len(env.Blocks)
	last := nth(env, n-1)
	apub, apriv, aseed := attackerKey(c.Mut.N)
	_ = apub
	switch c.Mut.Kind {
	case "flip-seal":
		flipBit(env.Proof.Final, c.Mut.Bit)
	case "flip-last-block":
		flipBit(last.Block, c.Mut.Bit)
	case "flip-last-key":
		flipBit(last.NextKey, c.Mut.Bit)
	case "flip-last-sig":
		flipBit(last.Signature, c.Mut.Bit)
	case "seal-from-donor":
		env.Proof = wire.Proof{HasFinal: true, Final: append([]byte{}, donor.Proof.Final...)}
	case "seal-to-random-secret":
		env.Proof = wire.Proof{HasSecret: true, Secret: aseed}
	case "seal-to-64-byte-secret-with-public-key":
		// "unsealing" without any private key: 32 arbitrary bytes followed by the last announced key
		env.Proof = wire.Proof{HasSecret: true, Secret: append(append([]byte{}, aseed...), last.NextKey...)}
	case "seal-extended":
		// the genuine 64 bytes followed by 1-3 more: an altered seal signature
		for i := uint64(0); i <= c.Mut.N%3; i++ {
			env.Proof.Final = append(env.Proof.Final, byte(c.Mut.Bit+int(i)))
		}
	case "seal-shortened":
		if len(env.Proof.Final) > 0 {
			env.Proof.Final = env.Proof.Final[:len(env.Proof.Final)-1-int(c.Mut.N%3)]
		}
	case "seal-removed":
		// the proof message stays, its content (the seal) is gone
		env.Proof = wire.Proof{}
	case "seal-removed-last-block-dropped":
		env.Proof = wire.Proof{}
		if len(env.Blocks) > 0 {
			env.Blocks = env.Blocks[:len(env.Blocks)-1]
		}
	case "seal-doubled":
		env.Proof.Final = append(append([]byte{}, env.Proof.Final...), env.Proof.Final...)
	case "seal-by-attacker":
		env.Proof = wire.Proof{HasFinal: true, Final: sealSignature(apriv, *last)}
	case "seal-over-without-signature":
		// a seal computed over block || alg || key only (signature left out)
		env.Proof = wire.Proof{HasFinal: true, Final: signPayload(apriv, last.Block, 0, last.NextKey)}
	case "drop-last-block":
		if len(env.Blocks) > 0 {
			env.Blocks = env.Blocks[:len(env.Blocks)-1]
		} else {
			flipBit(env.Proof.Final, c.Mut.Bit)
		}
	case "swap-last-two":
		if n >= 2 {
			a, b := *nth(env, n-1), *nth(env, n-2)
			*nth(env, n-1), *nth(env, n-2) = b, a
		} else {
			flipBit(env.Proof.Final, c.Mut.Bit)
		}
	case "append-attacker-block":
		extra := encodeBlocks([]m.Block{c.Extra})[0]
		npub, _, _ := attackerKey(c.Mut.N + 1)
		env.Blocks = append(env.Blocks, wire.SignedBlock{Block: extra, NextKey: npub, Signature: signPayload(apriv, extra, 0, npub)})
	}
	return env
}

type panelResult struct {
	classes []string
	queries [][]string
}

func runPanel(b *biscuit.Biscuit, pub ed25519.PublicKey, panel []m.Authz, queries []m.Rule) (panelResult, error) {
	var pr panelResult
	for _, az := range panel {
		o, qs, err := authorizeOnce(b, pub, az, queries)
		if err != nil {
			return pr, err
		}
		pr.classes = append(pr.classes, o.String())
		pr.queries = append(pr.queries, qs)
	}
	return pr, nil
}

func (a panelResult) diff(b panelResult) string {
	for i := range a.classes {
		if a.classes[i] != b.classes[i] {
			return fmt.Sprintf("authorizer %d: outcome %s vs %s", i, a.classes[i], b.classes[i])
		}
		for j := range a.queries[i] {
			if a.queries[i][j] != b.queries[i][j] {
				return fmt.Sprintf("authorizer %d query %d: {%s} vs {%s}", i, j, a.queries[i][j], b.queries[i][j])
			}
		}
	}
	return ""
}

func sealedRefusals(s *biscuit.Biscuit, extra m.Block, what string) *obs.Violation {
	rng := bridge.NewDetRand(4242)
	bb := s.CreateBlock()
	if err := bridge.AddBlockTo(bb, extra); err != nil {
		return obs.Violf("%s: cannot fill block: %v", what, err)
	}
	if nt, err := s.Append(rng, bb.Build()); err == nil || nt != nil {
		return obs.Violf("%s: Append on a sealed token returned token=%v err=%v", what, nt != nil, err)
	}
	if nt, err := s.Seal(rng); err == nil || nt != nil {
		return obs.Violf("%s: Seal on a sealed token returned token=%v err=%v", what, nt != nil, err)
	}
	return nil
}

func checkC09(c C09Case, rec *obs.Recorder) *obs.Violation {
	spec := c.Spec
	spec.Sealed = false
	T, _, pub, err := spec.build()
	if err != nil {
		return obs.Violf("cannot build: %v", err)
	}
	desc := m.Token{Blocks: spec.Blocks}.Text()
	if spec.RngKey%2 == 1 {
		// the holder who seals usually received the token as bytes
		ser, err := T.Serialize()
		if err != nil {
			return obs.Violf("token %s: serialize: %v", desc, err)
		}
		if spec.RngKey%4 == 3 && len(spec.Base) == 0 {
			// ... and those bytes were written by another implementation of the format: the same
			// content under the same root, encoded and signed by this package's own writer
			_, priv := bridge.RootKey(spec.RootSeed)
			env := wireChain(priv, spec.RngKey, encodeBlocksForeign(spec.Blocks), false)
			env.RootKeyID = spec.KeyID
			ser = env.Encode()
			desc += " (written by an independent encoder)"
		}
		if T, err = bridge.UnmarshalBase(ser, spec.Base); err != nil {
			return obs.Violf("token %s: unmarshal: %v", desc, err)
		}
		desc += " (received as bytes before sealing)"
	}
	S, err := T.Seal(bridge.NewDetRand(spec.RngKey + 5))
	if err != nil || S == nil {
		return obs.Violf("token %s: Seal failed: %v", desc, err)
	}
	base, err := runPanel(T, pub, c.Panel, c.Queries)
	if err != nil {
		return obs.Violf("token %s: unsealed token does not verify: %v", desc, err)
	}
	sres, err := runPanel(S, pub, c.Panel, c.Queries)
	if err != nil {
		return obs.Violf("token %s: sealed token does not verify under the same root: %v", desc, err)
	}
	if d := base.diff(sres); d != "" {
		return obs.Violf("token %s: sealed and unsealed twins differ: %s", desc, d)
	}
	// "for every authorizer": also one created with options of its own (a fact limit of 1 here)
	{
		lim := biscuit.WithWorldOptions(datalog.WithMaxFacts(1), datalog.WithMaxDuration(bridge.LongDuration))
		aT, eT := T.AuthorizerFor(biscuit.WithSingularRootPublicKey(pub), lim)
		aS, eS := S.AuthorizerFor(biscuit.WithSingularRootPublicKey(pub), lim)
		if eT != nil || eS != nil {
			return obs.Violf("token %s: verification with options: unsealed %v, sealed %v", desc, eT, eS)
		}
		bridge.AddAuthz(aT, c.Panel[0])
		bridge.AddAuthz(aS, c.Panel[0])
		if oT, oS := bridge.Authorize(aT), bridge.Authorize(aS); oT.Class != oS.Class {
			return obs.ViolK("options", "token %s, authorizer {%s} created with a fact limit of 1: the unsealed token gives %s, the sealed token %s", desc, c.Panel[0].Text(), oT, oS)
		}
	}
	// "verifies under the same root key": also when the verifier selects the key by identifier
	if !sameID(T.RootKeyID(), S.RootKeyID()) {
		return obs.ViolK("keyid", "token %s created with root key id %s: the sealed token reports %s", desc, idText(T.RootKeyID()), idText(S.RootKeyID()))
	}
	if id := spec.KeyID; id != nil {
		other, _ := bridge.RootKey(spec.RootSeed + 4242)
		keys := map[uint32]ed25519.PublicKey{*id: pub, *id + 1: other}
		_, eT := T.AuthorizerFor(biscuit.WithRootPublicKeys(keys, &other), bridge.WorldOpts())
		_, eS := S.AuthorizerFor(biscuit.WithRootPublicKeys(keys, &other), bridge.WorldOpts())
		if eT != nil || eS != nil {
			return obs.ViolK("keyid", "token %s with root key id %d, key map {%d: root, %d: other}, default other: unsealed verifies with %v, sealed with %v", desc, *id, *id, *id+1, eT, eS)
		}
	}
	ra, rb := T.RevocationIds(), S.RevocationIds()
	if len(ra) != len(rb) {
		return obs.Violf("token %s: sealing changed the number of revocation ids", desc)
	}
	for i := range ra {
		if !bytes.Equal(ra[i], rb[i]) {
			return obs.Violf("token %s: sealing changed revocation id %d", desc, i)
		}
	}
	if v := sealedRefusals(S, c.Extra, "token "+desc); v != nil {
		return v
	}
	sser, err := S.Serialize()
	if err != nil {
		return obs.Violf("token %s: sealed token does not serialize: %v", desc, err)
	}
	if r := ref.VerifyChain(sser, pub); !r.OK {
		return obs.Violf("token %s: sealed token does not verify per the reference chain walk: %s", desc, r.Reason)
	}
	S2, err := bridge.UnmarshalBase(sser, spec.Base)
	if err != nil {
		return obs.Violf("token %s: sealed token does not unmarshal: %v", desc, err)
	}
	rres, err := runPanel(S2, pub, c.Panel, c.Queries)
	if err != nil {
		return obs.Violf("token %s: reloaded sealed token does not verify: %v", desc, err)
	}
	if d := base.diff(rres); d != "" {
		return obs.Violf("token %s: reloaded sealed token differs from the unsealed token: %s", desc, d)
	}
	if v := sealedRefusals(S2, c.Extra, "reloaded token "+desc); v != nil {
		return v
	}

	// tampering with the sealed envelope
	donorSpec := c.Donor
	donorSpec.Sealed = true
	D, _, _, err := donorSpec.build()
	if err != nil {
		return obs.Violf("cannot build donor: %v", err)
	}
	dser, _ := D.Serialize()
	senv, err := wire.DecodeBiscuit(sser)
	if err != nil {
		return obs.Violf("independent reader: %v", err)
	}
	denv, err := wire.DecodeBiscuit(dser)
	if err != nil {
		return obs.Violf("independent reader (donor): %v", err)
	}
	menv := sealMutation(c, senv, denv)
	data := menv.Encode()
	want := ref.VerifyChain(data, pub)
	got, _, _, detail, pan := libAccepts(data, pub)
	if pan != nil {
		return obs.ViolK("panic", "sealed-envelope mutation %s: %v", c.Mut.Kind, pan)
	}
	rec.Label("mut:" + c.Mut.Kind)
	if !bytes.Equal(data, sser) && want.OK {
		return obs.Violf("harness: mutation %s of a sealed token is accepted by the reference", c.Mut.Kind)
	}
	if got != want.OK {
		return obs.Violf("token %s, sealed-envelope mutation %+v: reference accept=%v (%s), library accept=%v (%s)", desc, c.Mut, want.OK, want.Reason, got, detail)
	}

	allowed, refused := false, false
	for _, cl := range base.classes {
		if cl == ref.Allow {
			allowed = true
		} else {
			refused = true
		}
	}
	if allowed {
		rec.Label("panel-has-allow")
	}
	if len(spec.Blocks) >= 2 && allowed && refused {
		if rec.NonTrivial(desc + fmt.Sprint(c.Mut) + m.Authz{}.Key() + panelKey(c.Panel)) {
			rec.Sample(map[string]any{"token": desc, "panel_outcomes": base.classes, "mutation": c.Mut.Kind})
		}
	}
	return nil
}

func panelKey(p []m.Authz) string {
	k := ""
	for _, a := range p {
		k += a.Key()
	}
	return k
}

func drawC09(t *rapid.T) C09Case {
	cfg := gen.DefaultProg
	cfg.MaxBlocks = 3
	cfg.MaxChecks = 1
	cfg.PCheckSat = 92
	cfg.PPolicyMatch = 60
	sc := gen.DrawScenario(t, cfg, gen.SmallProfile)
	c := C09Case{Spec: TokSpec{RootSeed: rapid.Uint64Range(1, 1<<16).Draw(t, "root"), RngKey: rapid.Uint64Range(1, 1<<32).Draw(t, "rng"), Blocks: sc.Token.Blocks}}
	if rapid.IntRange(0, 3).Draw(t, "custombase") == 3 {
		// token composed over a custom base symbol table that holds strings the content uses
		c.Spec.Base = rapid.SampledFrom([][]string{{"file1"}, {"zz", "a", "b"}, {"x1", "file2", "file1", "admin"}}).Draw(t, "base")
	}
	if rapid.IntRange(0, 2).Draw(t, "haskeyid") > 0 {
		id := rapid.SampledFrom([]uint32{0, 0, 1, 7, 1<<32 - 2}).Draw(t, "keyid")
		c.Spec.KeyID = &id
	}
	c.Panel = append(c.Panel, sc.Authz)
	for i := 0; i < 3; i++ {
		c.Panel = append(c.Panel, sc.Schema.DrawAuthz(t, sc.Token, cfg))
	}
	closure := gen.AuthClosure(sc.Token, sc.Authz)
	for i := 0; i < 2; i++ {
		c.Queries = append(c.Queries, sc.Schema.DrawPanelQuery(t, closure))
	}
	c.Donor = drawTokSpec(t, sc.Schema, 2)
	if rapid.Bool().Draw(t, "donor.sameroot") {
		c.Donor.RootSeed = c.Spec.RootSeed
	}
	c.Extra = drawSimpleBlock(t, sc.Schema)
	c.Mut = Mutation{Kind: c09Kinds[spreadInt(t, "kind", len(c09Kinds))], Bit: rapid.IntRange(0, 4095).Draw(t, "bit"), N: rapid.Uint64Range(1, 1<<20).Draw(t, "n")}
	return c
}

func TestC09(t *testing.T) {
	rec := obs.New("C09")
	defer rec.Flush(true)
	rec.SetExtra("rule", "rapid: goal-directed token (authority + 0-3 later blocks; with or without a root key id, 0 included; sometimes composed over a custom base symbol table; in half of the cases received as bytes before sealing, half of those bytes written and signed by the independent encoder in another valid encoding: empty context omitted) T, S = T.Seal(), a panel of 4 generated authorizers and 2 queries, reload of S, and one of 15 sealed-envelope mutations (seal signature extended by 1-3 bytes / shortened / written twice,seal replaced by a 64-byte secret whose second half is the announced key, seal signature bits, last block / announced key / signature bits, seal from another sealed token of the same or another issuer, seal replaced by a secret, attacker seal, seal computed without the last signature, last block dropped, last two swapped, attacker block appended). Oracle: S verifies under the same root; an authorizer created with a fact limit of 1 gives the same class on T and on S; outcome class and query results of S and of reloaded S equal those of T for every panel member; revocation ids equal; Append and Seal on S and on reloaded S return an error and no token; the mutated envelope is rejected, in agreement with the reference chain walk. Non-trivial = T has >= 1 later block and the panel has both an allowed and a refused member; distinct by (token, panel, mutation).")
	rec.SetExtra("assumptions", []string{"crypto/ed25519 trusted", "equality between sealed and unsealed twins is asserted on every generated case, whatever its verdict"})
	harness.RunWith(t, harness.Spec[C09Case]{ID: "C09", Draw: drawC09, Check: checkC09}, rec)
}
