package props

import (
	"crypto/ed25519"
	"testing"

	biscuit "github.com/biscuit-auth/biscuit-go/v2"
	"pgregory.net/rapid"

	"verif/internal/bridge"
	"verif/internal/gen"
	"verif/internal/harness"
	m "verif/internal/model"
	"verif/internal/obs"
	"verif/internal/ref"
	"verif/internal/wire"
)

// C02 — attenuation can only restrict: appending a block never widens authorization.

type C02Case struct {
	Token    m.Token `json:"token"`
	Authz    m.Authz `json:"authz"`
	B        m.Block `json:"b"`
	RootSeed uint64  `json:"root_seed"`
	Wire     string  `json:"wire,omitempty"` // "" = appended through the API; otherwise a wire-level trick
	Reload   bool    `json:"reload"`
}

var c02Tricks = []string{"plain", "redeclare-authority-symbols", "redeclare-default-symbols", "variable-in-fact", "duplicate-own-symbols", "shifted-indexes"}

// appendWire appends B to the serialized token with the holder's next secret,
// using this package's own writer, optionally with a symbol-table trick.
func appendWire(ser []byte, b m.Block, trick string, n uint64) ([]byte, error) {
	env, err := wire.DecodeBiscuit(ser)
	if err != nil {
		return nil, err
	}
	table := &wire.Table{}
	for _, sb := range env.All() {
		blk, err := wire.DecodeBlock(sb.Block)
		if err != nil {
			return nil, err
		}
		table.Syms = append(table.Syms, blk.Symbols...)
	}
	prior := append([]string{}, table.Syms...)
	in := &wire.Interner{T: table}
	wb := in.Block(b.Postfix())
	switch trick {
	case "redeclare-authority-symbols":
		wb.Symbols = append(append([]string{}, prior...), wb.Symbols...)
	case "redeclare-default-symbols":
		wb.Symbols = append([]string{"read", "resource", "right"}, wb.Symbols...)
	case "variable-in-fact":
		if len(wb.Facts) > 0 && len(wb.Facts[0].Terms) > 0 {
			wb.Facts[0].Terms[0] = wire.Term{K: wire.TVar, U: 0}
		} else {
			wb.Facts = append(wb.Facts, wire.Pred{Name: 4, Terms: []wire.Term{{K: wire.TVar, U: 2}, {K: wire.TVar, U: 3}}})
		}
	case "duplicate-own-symbols":
		wb.Symbols = append(wb.Symbols, wb.Symbols...)
	case "shifted-indexes":
		// point every fact's string terms one slot lower: into earlier tables
		for i := range wb.Facts {
			for j := range wb.Facts[i].Terms {
				if wb.Facts[i].Terms[j].K == wire.TStr && wb.Facts[i].Terms[j].U > wire.Offset {
					wb.Facts[i].Terms[j].U--
				}
			}
		}
	}
	if !env.Proof.HasSecret || len(env.Proof.Secret) != 32 {
		return nil, nil
	}
	priv := ed25519.NewKeyFromSeed(env.Proof.Secret)
	npub, _, nseed := attackerKey(n)
	blk := wb.Encode()
	env.Blocks = append(env.Blocks, wire.SignedBlock{Block: blk, NextKey: npub, Signature: signPayload(priv, blk, 0, npub)})
	env.Proof = wire.Proof{HasSecret: true, Secret: nseed}
	return env.Encode(), nil
}

func checkC02(c C02Case, rec *obs.Recorder) *obs.Violation {
	// wire-level appends use the default symbol offsets: those parents keep the default base table
	T, pub, err := mkTokenOpt(c.Token, c.RootSeed, c.Reload, c.Wire == "")
	if err != nil {
		return obs.Violf("%s: cannot build token: %v", scenarioText(c.Token, c.Authz), err)
	}
	oT, _, err := authorizeOnce(T, pub, c.Authz, nil)
	if err != nil {
		return obs.Violf("%s: token does not verify: %v", scenarioText(c.Token, c.Authz), err)
	}
	want := ref.Authorize(c.Token, c.Authz)
	inFragment := !want.Ambiguous && !want.Diverged
	if inFragment && !want.Is(oT.Class) {
		return obs.Violf("%s: parent token: expected %v, got %s", scenarioText(c.Token, c.Authz), want.Classes, oT)
	}

	// T + B
	var TB *biscuit.Biscuit
	mode := "api"
	if c.Wire == "" {
		TB, err = bridge.AppendBlock(T, bridge.NewDetRand(c.RootSeed+77), c.B)
		if err != nil {
			rec.Label("append-refused")
			return nil // the holder could not build the block: nothing was widened
		}
	} else {
		mode = "wire:" + c.Wire
		ser, err := T.Serialize()
		if err != nil {
			return obs.Violf("serialize: %v", err)
		}
		data, err := appendWire(ser, c.B, c.Wire, c.RootSeed)
		if err != nil || data == nil {
			return obs.Violf("harness: cannot append at wire level: %v", err)
		}
		if r := ref.VerifyChain(data, pub); !r.OK && !r.Malformed {
			return obs.Violf("harness: wire-appended token does not verify: %s", r.Reason)
		}
		TB, err = biscuit.Unmarshal(data)
		if err != nil {
			rec.Label("wire-rejected-at-unmarshal")
			return nil
		}
	}
	oTB, _, err := authorizeOnce(TB, pub, c.Authz, nil)
	if err != nil {
		if c.Wire == "" {
			return obs.Violf("%s + block {%s}: attenuated token does not verify: %v", scenarioText(c.Token, c.Authz), c.B.Text(), err)
		}
		rec.Label("wire-rejected-at-verify")
		return nil
	}
	rec.Label("mode:" + mode)
	rec.Label("parent:" + oT.Class + "->" + oTB.Class)

	// non-trivial: under a wrong "block facts are global" model the extended token would be allowed
	if oT.Class != ref.Allow && inFragment {
		g := m.Token{Blocks: append([]m.Block{}, c.Token.Blocks...)}
		a0 := g.Blocks[0]
		a0.Facts = append(append([]m.Pred{}, a0.Facts...), c.B.Facts...)
		a0.Rules = append(append([]m.Rule{}, a0.Rules...), c.B.Rules...)
		g.Blocks[0] = a0
		if gv := ref.Authorize(g, c.Authz); gv.Is(ref.Allow) && !gv.Ambiguous {
			rec.Label("global-model-would-allow")
			if rec.NonTrivial(c.Token.Key() + c.Authz.Key() + c.B.Key() + c.Wire) {
				rec.Sample(map[string]any{"scenario": scenarioText(c.Token, c.Authz), "appended": c.B.Text(), "mode": mode, "parent_verdict": oT.String(), "extended_verdict": oTB.String()})
			}
		}
	}

	if oTB.Class == ref.Allow && oT.Class != ref.Allow {
		return obs.Violf("%s: refused (%s), but after appending block {%s} (%s) it is allowed", scenarioText(c.Token, c.Authz), oT, c.B.Text(), mode)
	}
	if oTB.Class == ref.Panic {
		return obs.ViolK("panic", "%s + {%s}: Authorize panicked: %s", scenarioText(c.Token, c.Authz), c.B.Text(), oTB.Err)
	}

	// the same configuration handed over as a saved snapshot (taken from an authorizer of the parent
	// token, loaded into authorizers of the parent and of the extended token)
	if src, err := newAuthz(T, pub, c.Authz); err == nil {
		if snap, err := src.SerializePolicies(); err == nil {
			run := func(tok *biscuit.Biscuit) (bridge.Outcome, bool) {
				a, err := newAuthz(tok, pub, m.Authz{})
				if err != nil {
					return bridge.Outcome{}, false
				}
				if lerr, pan := loadSafely(a, snap); lerr != nil || pan != nil {
					return bridge.Outcome{}, false
				}
				return bridge.Authorize(a), true
			}
			lT, ok1 := run(T)
			lTB, ok2 := run(TB)
			if ok1 && inFragment && !want.Is(lT.Class) {
				return obs.ViolK("via-snapshot", "%s: parent token, configuration loaded from a snapshot: expected %v, got %s", scenarioText(c.Token, c.Authz), want.Classes, lT)
			}
			if ok1 && ok2 {
				rec.Label("via-snapshot:" + lT.Class + "->" + lTB.Class)
				if lTB.Class == ref.Allow && lT.Class != ref.Allow {
					return obs.ViolK("via-snapshot", "%s, configuration loaded from a snapshot saved on the parent: refused (%s), but after appending block {%s} (%s) it is allowed", scenarioText(c.Token, c.Authz), lT, c.B.Text(), mode)
				}
			}
		}
	}
	return nil
}

func drawC02(t *rapid.T) C02Case {
	cfg := gen.DefaultProg
	cfg.MaxBlocks = 2
	cfg.PCheckSat = 70 // refusals are what an attacker wants to overturn; few enough failing checks that one block can address them all
	cfg.MaxChecks = 1
	cfg.RuleCfg.MaxExprs = 1
	cfg.PPolicyMatch = 35
	sc := gen.DrawScenario(t, cfg, gen.SmallProfile)
	c := C02Case{Token: sc.Token, Authz: sc.Authz, RootSeed: rapid.Uint64Range(1, 1<<20).Draw(t, "root"), Reload: rapid.Bool().Draw(t, "reload")}
	c.B = sc.Schema.DrawAdversarialBlock(t, sc.Token, sc.Authz, false)
	if rapid.IntRange(0, 2).Draw(t, "wire") == 0 {
		// the table tricks an implementation is most likely to trip over are drawn more often
		c.Wire = rapid.SampledFrom(append([]string{"redeclare-authority-symbols", "redeclare-authority-symbols", "shifted-indexes"}, c02Tricks...)).Draw(t, "trick")
	}
	return c
}

func TestC02(t *testing.T) {
	rec := obs.New("C02")
	defer rec.Flush(true)
	rec.SetExtra("rule", "rapid: goal-directed scenario (token with 0-2 later blocks, authorizer with checks and ordered policies, tuned so that most parents are refused) plus an adversarial appended block aimed at the refusal reason: ground facts instantiating the body of failing checks and of allow-policy queries, rules deriving them, copies of authority / authorizer facts, request-like facts over default symbols, ill-typed rules, rules with an unbound head variable, extra checks. A third of the cases append the block at wire level with the holder's next secret and this package's own writer, with symbol-table tricks (re-declared authority or default symbols, duplicated table, variables in facts, shifted indexes). Oracle: Authorize(T+B)==nil implies Authorize(T)==nil, and the parent verdict equals the reference; the same two statements with the authorizer configuration delivered as a snapshot (SerializePolicies on an authorizer of T, LoadPolicies into authorizers of T and of T+B). Non-trivial = the parent is refused and a (wrong) model in which the appended facts and rules were authority-level would allow; distinct by (token, authorizer, block, mode).")
	rec.SetExtra("assumptions", []string{"a block the builders or Unmarshal refuse counts as not widening"})
	harness.RunWith(t, harness.Spec[C02Case]{ID: "C02", Draw: drawC02, Check: checkC02}, rec)
}
