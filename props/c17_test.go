package props

import (
	"bytes"
	"encoding/hex"
	"fmt"
	"io"
	"strings"
	"testing"

	biscuit "github.com/biscuit-auth/biscuit-go/v2"
	"github.com/biscuit-auth/biscuit-go/v2/datalog"
	"pgregory.net/rapid"

	"verif/internal/bridge"
	"verif/internal/gen"
	"verif/internal/harness"
	m "verif/internal/model"
	"verif/internal/obs"
	"verif/internal/wire"
)

// C17 — revocation identifiers are per-block, stable and unique.

type C17Op struct {
	Op      string `json:"op"` // build | append | seal | reload
	On      int    `json:"on"` // index into the live tokens (modulo)
	Content int    `json:"content"`
}

type C17Case struct {
	RootSeed uint64    `json:"root_seed"`
	RngKey   uint64    `json:"rng_key"`
	Contents []m.Block `json:"contents"` // small pool: identical content is appended repeatedly
	Ops      []C17Op   `json:"ops"`
	Chunk    int       `json:"chunk,omitempty"` // the random source returns at most this many bytes per Read (0 = no limit)
}

type c17Tok struct {
	tok    *biscuit.Biscuit
	signed []int // signing operation that produced each block
	sealed bool
	birth  [][]byte // revocation identifiers observed when the token was made
	held   []byte   // what Serialize returned at that time (kept, not copied)
}

func checkC17(c C17Case, rec *obs.Recorder) *obs.Violation {
	_, priv := bridge.RootKey(c.RootSeed)
	// fresh randomness, possibly delivered in short reads (a healthy source may do that)
	var rng io.Reader = bridge.NewDetRand(c.RngKey)
	if c.Chunk > 0 {
		rng = bridge.Chunked{R: rng, N: c.Chunk}
	}
	var live []c17Tok
	sharedU := &biscuit.Unmarshaler{Symbols: &datalog.SymbolTable{}}
	nextSign := 0
	idOwner := map[string]int{} // revocation id -> signing operation
	sameContentTwice := false
	contentSigned := map[int]int{}
	var hist []string
	maxChain := 0

	observe := func(k int, parent *c17Tok) *obs.Violation {
		tk := live[k]
		ids := tk.tok.RevocationIds()
		if len(ids) != len(tk.signed) {
			return obs.Violf("history [%s]: token %d has %d blocks and %d revocation identifiers", strings.Join(hist, ","), k, len(tk.signed), len(ids))
		}
		if tk.tok.BlockCount()+1 != len(tk.signed) {
			return obs.Violf("history [%s]: token %d: BlockCount()=%d, expected %d later blocks", strings.Join(hist, ","), k, tk.tok.BlockCount(), len(tk.signed)-1)
		}
		if parent != nil {
			pids := parent.tok.RevocationIds()
			for i := range pids {
				if i >= len(ids) || !bytes.Equal(pids[i], ids[i]) {
					return obs.Violf("history [%s]: identifier %d of derived token %d differs from its parent's", strings.Join(hist, ","), i, k)
				}
			}
		}
		ser, err := tk.tok.Serialize()
		if err != nil {
			return obs.Violf("history [%s]: serialize: %v", strings.Join(hist, ","), err)
		}
		env, err := wire.DecodeBiscuit(ser)
		if err != nil {
			return obs.Violf("history [%s]: independent reader: %v", strings.Join(hist, ","), err)
		}
		all := env.All()
		if len(all) != len(ids) {
			return obs.Violf("history [%s]: %d signed blocks on the wire, %d identifiers", strings.Join(hist, ","), len(all), len(ids))
		}
		for i := range ids {
			if !bytes.Equal(ids[i], all[i].Signature) {
				return obs.Violf("history [%s]: token %d: identifier %d is %x, the signature on that block is %x", strings.Join(hist, ","), k, i, ids[i], all[i].Signature)
			}
			h := hex.EncodeToString(ids[i])
			if owner, ok := idOwner[h]; ok && owner != tk.signed[i] {
				return obs.Violf("history [%s]: blocks signed by different operations (#%d and #%d) share the identifier %s", strings.Join(hist, ","), owner, tk.signed[i], h)
			}
			idOwner[h] = tk.signed[i]
		}
		if len(ids) > maxChain {
			maxChain = len(ids)
		}
		// an identifier the caller extends (to derive a lookup key, say) is the caller's copy: its
		// neighbours in the same result stay what they were
		if probe := tk.tok.RevocationIds(); len(probe) == len(ids) {
			for i := 0; i+1 < len(probe); i++ {
				_ = append(probe[i], 0xEE, 0xEE, 0xEE, 0xEE)
				if !bytes.Equal(probe[i+1], all[i+1].Signature) {
					return obs.ViolK("neighbour", "history [%s]: token %d: appending to identifier %d of a RevocationIds() result changed identifier %d of the same result", strings.Join(hist, ","), k, i, i+1)
				}
			}
		}
		if live[k].birth == nil {
			for _, id := range ids {
				live[k].birth = append(live[k].birth, append([]byte{}, id...))
			}
			live[k].held = ser // the very slice Serialize returned: it is the caller's from now on
		} else {
			// the bytes obtained earlier still are this token: same signatures, block for block
			old, err := wire.DecodeBiscuit(live[k].held)
			if err != nil {
				return obs.ViolK("held-bytes", "history [%s]: the bytes Serialize returned for token %d when it was made no longer decode (%v): a later call wrote into them", strings.Join(hist, ","), k, err)
			}
			oa := old.All()
			if len(oa) != len(live[k].birth) {
				return obs.ViolK("held-bytes", "history [%s]: the bytes Serialize returned for token %d when it was made now hold %d blocks instead of %d", strings.Join(hist, ","), k, len(oa), len(live[k].birth))
			}
			for i := range oa {
				if !bytes.Equal(oa[i].Signature, live[k].birth[i]) {
					return obs.ViolK("held-bytes", "history [%s]: the bytes Serialize returned for token %d when it was made were changed by a later call: block %d now carries another signature", strings.Join(hist, ","), k, i)
				}
			}
			for i := range ids {
				if !bytes.Equal(ids[i], live[k].birth[i]) {
					return obs.Violf("history [%s]: identifier %d of token %d changed after it was made (a later operation on another token altered it)", strings.Join(hist, ","), i, k)
				}
			}
		}
		return nil
	}

	build := func(content int) *obs.Violation {
		tok, err := bridge.BuildAuthority(priv, rng, c.Contents[content%len(c.Contents)], nil)
		if err != nil {
			return obs.Violf("build: %v", err)
		}
		live = append(live, c17Tok{tok: tok, signed: []int{nextSign}})
		nextSign++
		contentSigned[content%len(c.Contents)]++
		return observe(len(live)-1, nil)
	}
	hist = append(hist, "build")
	// the first token comes from a builder that is kept (and asked for more tokens later)
	firstBuilder := biscuit.NewBuilder(priv, biscuit.WithRNG(rng))
	if err := bridge.AddBlockTo(firstAuthority{firstBuilder}, c.Contents[0]); err != nil {
		return obs.Violf("build: %v", err)
	}
	if ft, err := firstBuilder.Build(); err != nil {
		return obs.Violf("build: %v", err)
	} else {
		live = append(live, c17Tok{tok: ft, signed: []int{nextSign}})
		nextSign++
		contentSigned[0]++
		if v := observe(0, nil); v != nil {
			return v
		}
	}
	for _, op := range c.Ops {
		on := op.On % len(live)
		if op.Op == "append-last" {
			// grow the most recent unsealed token (deep chains), or fork it again
			op.Op = "append"
			for k := len(live) - 1 - op.On%2; k >= 0; k-- {
				if !live[k].sealed {
					on = k
					break
				}
			}
		}
		parent := live[on]
		switch op.Op {
		case "fanout":
			// many siblings: the same content appended to one parent again and again
			if parent.sealed {
				continue
			}
			ci := op.Content % len(c.Contents)
			hist = append(hist, fmt.Sprintf("fanout(t%d,c%d,x8)", on, ci))
			for k := 0; k < 8; k++ {
				nt, err := bridge.AppendBlock(parent.tok, rng, c.Contents[ci])
				if err != nil {
					return obs.Violf("history [%s]: append failed: %v", strings.Join(hist, ","), err)
				}
				live = append(live, c17Tok{tok: nt, signed: append(append([]int{}, parent.signed...), nextSign)})
				nextSign++
				contentSigned[ci]++
				sameContentTwice = true
				if v := observe(len(live)-1, &parent); v != nil {
					return v
				}
			}
		case "append-twice":
			// one built *Block value handed to Append twice: two signing operations, two identifiers
			if parent.sealed {
				continue
			}
			ci := op.Content % len(c.Contents)
			hist = append(hist, fmt.Sprintf("append-twice(t%d,c%d)", on, ci))
			bb := parent.tok.CreateBlock()
			if err := bridge.AddBlockTo(bb, c.Contents[ci]); err != nil {
				return obs.Violf("history [%s]: cannot fill the block: %v", strings.Join(hist, ","), err)
			}
			blk := bb.Build()
			for k := 0; k < 2; k++ {
				nt, err := parent.tok.Append(rng, blk)
				if err != nil {
					return obs.Violf("history [%s]: append failed: %v", strings.Join(hist, ","), err)
				}
				live = append(live, c17Tok{tok: nt, signed: append(append([]int{}, parent.signed...), nextSign)})
				nextSign++
				contentSigned[ci]++
				sameContentTwice = true
				if v := observe(len(live)-1, &parent); v != nil {
					return v
				}
			}
		case "append-default-rng":
			// no random source given: the library's default one is used, twice on the same parent with
			// the same content (the identifiers still differ; nothing else is asserted about their value)
			if parent.sealed {
				continue
			}
			ci := op.Content % len(c.Contents)
			hist = append(hist, fmt.Sprintf("append-default-rng(t%d,c%d,x2)", on, ci))
			for k := 0; k < 2; k++ {
				nt, err := bridge.AppendBlock(parent.tok, nil, c.Contents[ci])
				if err != nil {
					return obs.Violf("history [%s]: append with the default random source failed: %v", strings.Join(hist, ","), err)
				}
				live = append(live, c17Tok{tok: nt, signed: append(append([]int{}, parent.signed...), nextSign)})
				nextSign++
				contentSigned[ci]++
				sameContentTwice = true
				if v := observe(len(live)-1, &parent); v != nil {
					return v
				}
			}
		case "build-again":
			// the builder that made the first token is asked for another one: a new signing operation
			hist = append(hist, "build-again")
			nt, err := firstBuilder.Build()
			if err != nil {
				return obs.Violf("history [%s]: second Build on one builder: %v", strings.Join(hist, ","), err)
			}
			live = append(live, c17Tok{tok: nt, signed: []int{nextSign}})
			nextSign++
			contentSigned[0]++
			sameContentTwice = true
			if v := observe(len(live)-1, nil); v != nil {
				return v
			}
		case "build":
			hist = append(hist, fmt.Sprintf("build(c%d)", op.Content%len(c.Contents)))
			if v := build(op.Content); v != nil {
				return v
			}
		case "append":
			if parent.sealed {
				continue
			}
			ci := op.Content % len(c.Contents)
			hist = append(hist, fmt.Sprintf("append(t%d,c%d)", on, ci))
			nt, err := bridge.AppendBlock(parent.tok, rng, c.Contents[ci])
			if err != nil {
				return obs.Violf("history [%s]: append failed: %v", strings.Join(hist, ","), err)
			}
			live = append(live, c17Tok{tok: nt, signed: append(append([]int{}, parent.signed...), nextSign)})
			nextSign++
			contentSigned[ci]++
			if contentSigned[ci] >= 2 {
				sameContentTwice = true
			}
			if v := observe(len(live)-1, &parent); v != nil {
				return v
			}
		case "seal":
			if parent.sealed {
				continue
			}
			hist = append(hist, fmt.Sprintf("seal(t%d)", on))
			nt, err := parent.tok.Seal(rng)
			if err != nil {
				return obs.Violf("history [%s]: seal failed: %v", strings.Join(hist, ","), err)
			}
			live = append(live, c17Tok{tok: nt, signed: append([]int{}, parent.signed...), sealed: true})
			if v := observe(len(live)-1, &parent); v != nil {
				return v
			}
		case "reload":
			hist = append(hist, fmt.Sprintf("reload(t%d)", on))
			ser, err := parent.tok.Serialize()
			if err != nil {
				return obs.Violf("history [%s]: serialize: %v", strings.Join(hist, ","), err)
			}
			// odd targets are read through one long-lived Unmarshaler value: tokens it returned
			// earlier must keep their identifiers when it reads another token
			var nt *biscuit.Biscuit
			if on%2 == 1 {
				nt, err = sharedU.Unmarshal(ser)
			} else {
				nt, err = biscuit.Unmarshal(ser)
			}
			if err != nil {
				return obs.Violf("history [%s]: unmarshal: %v", strings.Join(hist, ","), err)
			}
			// the caller's buffer is the caller's: it is reused for something else afterwards
			for i := range ser {
				ser[i] = 0xAA
			}
			live = append(live, c17Tok{tok: nt, signed: append([]int{}, parent.signed...), sealed: parent.sealed})
			if v := observe(len(live)-1, &parent); v != nil {
				return v
			}
		}
		// every token produced so far stays as it was (parents and siblings alike)
		for k := range live {
			if v := observe(k, nil); v != nil {
				return v
			}
		}
	}
	if sameContentTwice || maxChain >= 3 {
		if rec.NonTrivial(strings.Join(hist, ",") + fmt.Sprint(c.RootSeed, c.RngKey)) {
			rec.Sample(map[string]any{"history": strings.Join(hist, ","), "signing_operations": nextSign, "distinct_identifiers": len(idOwner)})
		}
	}
	if sameContentTwice {
		rec.Label("identical-content-signed-twice")
	}
	if maxChain >= 3 {
		rec.Label("chain>=3")
	}
	rec.Count("signing_operations", nextSign)
	return nil
}

func drawC17(t *rapid.T) C17Case {
	s := gen.DrawSchema(t, gen.SmallProfile, 1, 2)
	c := C17Case{RootSeed: rapid.Uint64Range(1, 1<<16).Draw(t, "root"), RngKey: rapid.Uint64Range(1, 1<<32).Draw(t, "rng")}
	nc := rapid.IntRange(1, 2).Draw(t, "ncontents")
	for i := 0; i < nc; i++ {
		c.Contents = append(c.Contents, drawSimpleBlock(t, s))
	}
	c.Chunk = rapid.SampledFrom([]int{0, 0, 1, 1, 5, 31}).Draw(t, "chunk")
	n := rapid.IntRange(1, 14).Draw(t, "nops")
	for i := 0; i < n; i++ {
		c.Ops = append(c.Ops, C17Op{
			Op:      rapid.SampledFrom([]string{"append", "append", "append", "append-last", "append-last", "seal", "reload", "reload", "build", "build-again", "fanout", "append-twice", "append-default-rng"}).Draw(t, "op"),
			On:      rapid.IntRange(0, 11).Draw(t, "on"),
			Content: rapid.IntRange(0, 1).Draw(t, "content"),
		})
	}
	return c
}

func TestC17(t *testing.T) {
	rec := obs.New("C17")
	defer rec.Flush(true)
	rec.SetExtra("rule", "rapid derivation histories over a growing family of tokens under one root key: build / append / seal / serialize+unmarshal on any live token (the byte buffer handed to Unmarshal is overwritten afterwards, as a caller reusing its buffer would), block content drawn from a pool of 1-2 contents so identical content is signed repeatedly on the same and on different tokens, one deterministic random stream that never repeats, delivered whole or in short reads of 1 / 5 / 31 bytes; operations include append-last (deep chains), fan-out (the same content appended 8 times to one parent) append-twice (one built *Block value handed to Append twice) and build-again (the builder of the first token asked for another token); appending to one identifier of a RevocationIds() result must leave its neighbours alone; every other reload goes through one long-lived Unmarshaler value. Oracle after every step, for every live token: one identifier per block, parent's identifiers are a prefix of the child's, identifier i equals the signature the independent reader finds on block i, identifiers of different signing operations are pairwise different over the whole history, the parent is unchanged, and the byte slice Serialize returned when a token was made still decodes to the same signatures after every later call. Non-trivial = identical content signed at least twice, or a chain of >= 3 blocks; distinct by history.")
	rec.SetExtra("assumptions", []string{"fresh randomness is modelled by a counter-mode SHA-256 stream (never repeats within a history)"})
	harness.RunWith(t, harness.Spec[C17Case]{ID: "C17", Draw: drawC17, Check: checkC17}, rec)
}

// firstAuthority lets bridge.AddBlockTo fill the authority block of a Builder.
type firstAuthority struct{ biscuit.Builder }

func (a firstAuthority) AddFact(f biscuit.Fact) error   { return a.AddAuthorityFact(f) }
func (a firstAuthority) AddRule(r biscuit.Rule) error   { return a.AddAuthorityRule(r) }
func (a firstAuthority) AddCheck(c biscuit.Check) error { return a.AddAuthorityCheck(c) }
