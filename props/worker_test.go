package props

// workerMain is the entry point of the isolated worker child (C10, C19).
// Filled in by the properties that need process isolation.
func workerMain(mode string) int {
	if f, ok := workers[mode]; ok {
		return f()
	}
	return 64
}

var workers = map[string]func() int{}
