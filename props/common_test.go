package props

import (
	"os"
	"sort"
	"testing"
)

func replayOrNoTable() bool {
	return os.Getenv("VERIF_REPLAY") != ""
}

func TestMain(m *testing.M) {
	if mode := os.Getenv("VERIF_WORKER"); mode != "" {
		os.Exit(workerMain(mode))
	}
	os.Exit(m.Run())
}

func sortStrings(s []string) { sort.Strings(s) }

func seqInts(n int) []int {
	out := make([]int, n)
	for i := range out {
		out[i] = i
	}
	return out
}
