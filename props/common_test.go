package props

import (
	"os"
	"runtime/debug"
	"sort"
	"strings"
	"testing"
)

func replayOrNoTable() bool {
	return os.Getenv("VERIF_REPLAY") != ""
}

func TestMain(m *testing.M) {
	if mode := os.Getenv("VERIF_WORKER"); mode != "" {
		os.Exit(workerMain(mode))
	}
	os.Exit(m.Run())
}

func sortStrings(s []string) { sort.Strings(s) }

func seqInts(n int) []int {
	out := make([]int, n)
	for i := range out {
		out[i] = i
	}
	return out
}

// trimStack keeps the frames of a stack trace that mention the library.
func trimStack(st []byte) string {
	var out []string
	lines := strings.Split(string(st), "\n")
	for i := 0; i+1 < len(lines); i++ {
		if strings.Contains(lines[i], "biscuit-go") || strings.Contains(lines[i+1], "/repo/") || strings.Contains(lines[i+1], "/tmp/mut") {
			if !strings.HasPrefix(lines[i], "\t") {
				out = append(out, strings.TrimSpace(lines[i])+" @ "+strings.TrimSpace(lines[i+1]))
			}
		}
		if len(out) >= 8 {
			break
		}
	}
	return strings.Join(out, "\n")
}

func debugStack() []byte { return debug.Stack() }
