package props

import (
	"os"
	"runtime/debug"
	"sort"
	"strings"
	"testing"

	"pgregory.net/rapid"
)

func replayOrNoTable() bool {
	return os.Getenv("VERIF_REPLAY") != ""
}

func TestMain(m *testing.M) {
	if mode := os.Getenv("VERIF_WORKER"); mode != "" {
		os.Exit(workerMain(mode))
	}
	os.Exit(m.Run())
}

func sortStrings(s []string) { sort.Strings(s) }

func seqInts(n int) []int {
	out := make([]int, n)
	for i := range out {
		out[i] = i
	}
	return out
}

// trimStack keeps the frames of a stack trace that mention the library.
func trimStack(st []byte) string {
	var out []string
	lines := strings.Split(string(st), "\n")
	for i := 0; i+1 < len(lines); i++ {
		if strings.Contains(lines[i], "biscuit-go") || strings.Contains(lines[i+1], "/repo/") || strings.Contains(lines[i+1], "/tmp/mut") {
			if !strings.HasPrefix(lines[i], "\t") {
				out = append(out, strings.TrimSpace(lines[i])+" @ "+strings.TrimSpace(lines[i+1]))
			}
		}
		if len(out) >= 8 {
			break
		}
	}
	return strings.Join(out, "\n")
}

func debugStack() []byte { return debug.Stack() }

// spreadInt draws an integer in [0, n) with a flat distribution: rapid's integer
// generators favour small values, which starves the later alternatives of a
// class switch. The draw is still a rapid draw (it shrinks towards class h(0)).
func spreadInt(t *rapid.T, label string, n int) int {
	x := rapid.Uint64().Draw(t, label)
	x ^= x >> 33
	x *= 0xff51afd7ed558ccd
	x ^= x >> 33
	x *= 0xc4ceb9fe1a85ec53
	x ^= x >> 33
	return int(x % uint64(n))
}
