package props

import (
	"os"
	"testing"
)

func replayOrNoTable() bool {
	return os.Getenv("VERIF_REPLAY") != ""
}

func TestMain(m *testing.M) {
	if mode := os.Getenv("VERIF_WORKER"); mode != "" {
		os.Exit(workerMain(mode))
	}
	os.Exit(m.Run())
}
