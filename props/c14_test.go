package props

import (
	"fmt"
	"runtime/debug"
	"strings"
	"testing"

	biscuit "github.com/biscuit-auth/biscuit-go/v2"
	"github.com/biscuit-auth/biscuit-go/v2/parser"
	"pgregory.net/rapid"

	"verif/internal/bridge"
	"verif/internal/gen"
	"verif/internal/harness"
	m "verif/internal/model"
	"verif/internal/obs"
)

// C14 — the Datalog parser denotes exactly the documented grammar and never panics.

type C14Case struct {
	Class  string       `json:"class"` // grammar | must-error | robust
	TC     gen.TextCase `json:"tc"`
	Why    string       `json:"why,omitempty"` // must-error: what is wrong with the text
	Shared bool         `json:"shared"`        // use the long-lived parser instance (else FromString*)
	Via    string       `json:"via,omitempty"` // shared | fromstring | plain | must ("" = as Shared says)
}

var sharedParser = parser.New()

type parsed struct {
	facts    []biscuit.Fact
	rules    []biscuit.Rule
	checks   []biscuit.Check
	policies []biscuit.Policy
	// the parsed value as returned, when the entry point returns a whole block / authorizer
	block      *biscuit.ParsedBlock
	authorizer *biscuit.ParsedAuthorizer
}

func toParams(ps map[string]m.Term) parser.ParametersMap {
	if len(ps) == 0 {
		return nil
	}
	out := parser.ParametersMap{}
	for k, v := range ps {
		if k == "pnil" {
			out[k] = nil // a key that is present but bound to nothing
			continue
		}
		out[k] = bridge.ToTerm(v)
	}
	return out
}

// parseText calls the entry point named by the case; a panic is returned as pan.
// Via selects the family of entry points: the long-lived parser instance, the
// FromString*WithParams functions, the FromString* functions without a parameter map
// (only when the case has no parameters) or the Must() parser, which by contract
// panics with the error instead of returning it.
func parseText(c C14Case) (p parsed, err error, pan string) {
	via := c.Via
	if via == "" {
		via = "fromstring"
		if c.Shared {
			via = "shared"
		}
	}
	if via == "plain" && len(c.TC.Params) > 0 {
		via = "fromstring"
	}
	defer func() {
		if r := recover(); r != nil {
			if e, ok := r.(error); ok && via == "must" {
				p, err = parsed{}, e // the documented way a Must parser reports an error
				return
			}
			pan = fmt.Sprintf("%v\n%s", r, trimStack(debug.Stack()))
		}
	}()
	params := toParams(c.TC.Params)
	text := c.TC.Text
	must := sharedParser.Must()
	switch c.TC.Entry {
	case "fact":
		var f biscuit.Fact
		switch via {
		case "shared":
			f, err = sharedParser.Fact(text, params)
		case "plain":
			f, err = parser.FromStringFact(text)
		case "must":
			f = must.Fact(text, params)
		default:
			f, err = parser.FromStringFactWithParams(text, params)
		}
		if err == nil {
			p.facts = []biscuit.Fact{f}
		}
	case "rule":
		var r biscuit.Rule
		switch via {
		case "shared":
			r, err = sharedParser.Rule(text, params)
		case "plain":
			r, err = parser.FromStringRule(text)
		case "must":
			r = must.Rule(text, params)
		default:
			r, err = parser.FromStringRuleWithParams(text, params)
		}
		if err == nil {
			p.rules = []biscuit.Rule{r}
		}
	case "check":
		var ch biscuit.Check
		switch via {
		case "shared":
			ch, err = sharedParser.Check(text, params)
		case "plain":
			ch, err = parser.FromStringCheck(text)
		case "must":
			ch = must.Check(text, params)
		default:
			ch, err = parser.FromStringCheckWithParams(text, params)
		}
		if err == nil {
			p.checks = []biscuit.Check{ch}
		}
	case "policy":
		var po biscuit.Policy
		switch via {
		case "shared":
			po, err = sharedParser.Policy(text, params)
		case "plain":
			po, err = parser.FromStringPolicy(text)
		case "must":
			po = must.Policy(text, params)
		default:
			po, err = parser.FromStringPolicyWithParams(text, params)
		}
		if err == nil {
			p.policies = []biscuit.Policy{po}
		}
	case "block":
		var b biscuit.ParsedBlock
		switch via {
		case "shared":
			b, err = sharedParser.Block(text, params)
		case "plain":
			b, err = parser.FromStringBlock(text)
		case "must":
			b = must.Block(text, params)
		default:
			b, err = parser.FromStringBlockWithParams(text, params)
		}
		if err == nil {
			p.facts, p.rules, p.checks = b.Facts, b.Rules, b.Checks
			p.block = &b
		}
	default:
		var a biscuit.ParsedAuthorizer
		switch via {
		case "shared":
			a, err = sharedParser.Authorizer(text, params)
		case "plain":
			a, err = parser.FromStringAuthorizer(text)
		case "must":
			a = must.Authorizer(text, params)
		default:
			a, err = parser.FromStringAuthorizerWithParams(text, params)
		}
		if err == nil {
			p.facts, p.rules, p.checks, p.policies = a.Block.Facts, a.Block.Rules, a.Block.Checks, a.Policies
			p.authorizer = &a
		}
	}
	return p, err, ""
}

// useParsed adds every parsed element to a Builder, a BlockBuilder and an
// authorizer and builds the token; returns a panic description or "".
func useParsed(p parsed) (pan string) {
	defer func() {
		if r := recover(); r != nil {
			pan = fmt.Sprintf("%v\n%s", r, trimStack(debug.Stack()))
		}
	}()
	pub, priv := bridge.RootKey(1)
	b := biscuit.NewBuilder(priv, biscuit.WithRNG(bridge.NewDetRand(1)))
	for _, f := range p.facts {
		_ = b.AddAuthorityFact(f)
	}
	for _, r := range p.rules {
		_ = b.AddAuthorityRule(r)
	}
	for _, c := range p.checks {
		_ = b.AddAuthorityCheck(c)
	}
	tok, err := b.Build()
	if err != nil || tok == nil {
		return ""
	}
	bb := tok.CreateBlock()
	for _, f := range p.facts {
		_ = bb.AddFact(f)
	}
	for _, r := range p.rules {
		_ = bb.AddRule(r)
	}
	for _, c := range p.checks {
		_ = bb.AddCheck(c)
	}
	_ = bb.Build()
	_ = tok.String()
	a, err := tok.AuthorizerFor(biscuit.WithSingularRootPublicKey(pub), c10WorldOpts())
	if err != nil {
		return ""
	}
	for _, f := range p.facts {
		a.AddFact(f)
	}
	for _, r := range p.rules {
		a.AddRule(r)
	}
	for _, c := range p.checks {
		a.AddCheck(c)
	}
	for _, po := range p.policies {
		a.AddPolicy(po)
	}
	_, _ = a.SerializePolicies()
	_ = a.Authorize()
	_ = a.PrintWorld()
	// the same content handed over as one parsed value
	pb := biscuit.ParsedBlock{Facts: p.facts, Rules: p.rules, Checks: p.checks}
	if p.block != nil {
		pb = *p.block
	}
	pa := biscuit.ParsedAuthorizer{Block: pb, Policies: p.policies}
	if p.authorizer != nil {
		pa = *p.authorizer
	}
	b2 := biscuit.NewBuilder(priv, biscuit.WithRNG(bridge.NewDetRand(1)))
	_ = b2.AddBlock(pb)
	if tok2, err := b2.Build(); err == nil && tok2 != nil {
		bb2 := tok2.CreateBlock()
		_ = bb2.AddBlock(pb)
		_ = bb2.Build()
		_ = tok2.String()
	}
	for _, whole := range []bool{true, false} {
		a2, err := tok.AuthorizerFor(biscuit.WithSingularRootPublicKey(pub), c10WorldOpts())
		if err != nil {
			return ""
		}
		if whole {
			a2.AddAuthorizer(pa)
		} else {
			a2.AddBlock(pb)
		}
		_ = a2.Authorize()
		_ = a2.PrintWorld()
	}
	return ""
}

func liftParsed(p parsed) (facts []string, rules []string, checks []string, policies []string, err error) {
	for _, f := range p.facts {
		lp, e := bridge.LiftPred(f.Predicate)
		if e != nil {
			return nil, nil, nil, nil, e
		}
		facts = append(facts, lp.Key())
	}
	rk := func(r biscuit.Rule) (string, error) {
		lr, e := bridge.LiftRule(r)
		if e != nil {
			return "", e
		}
		return lr.Key(), nil
	}
	for _, r := range p.rules {
		k, e := rk(r)
		if e != nil {
			return nil, nil, nil, nil, e
		}
		rules = append(rules, k)
	}
	for _, c := range p.checks {
		var qs []string
		for _, q := range c.Queries {
			k, e := rk(q)
			if e != nil {
				return nil, nil, nil, nil, e
			}
			qs = append(qs, k)
		}
		checks = append(checks, "check{"+strings.Join(qs, " or ")+"}")
	}
	for _, po := range p.policies {
		var qs []string
		for _, q := range po.Queries {
			k, e := rk(q)
			if e != nil {
				return nil, nil, nil, nil, e
			}
			qs = append(qs, k)
		}
		kind := "deny"
		if po.Kind == biscuit.PolicyKindAllow {
			kind = "allow"
		}
		policies = append(policies, kind+"{"+strings.Join(qs, " or ")+"}")
	}
	return
}

func expectedKeys(tc gen.TextCase) (facts, rules, checks, policies []string) {
	for _, f := range tc.Facts {
		facts = append(facts, f.Key())
	}
	for _, r := range tc.Rules {
		rules = append(rules, r.Postfix().Key())
	}
	for _, c := range tc.Checks {
		checks = append(checks, c.Postfix().Key())
	}
	for _, p := range tc.Policies {
		policies = append(policies, p.Postfix().Key())
	}
	return
}

func firstDiff(kind string, want, got []string) string {
	if len(want) != len(got) {
		return fmt.Sprintf("%d %s expected, %d parsed (expected %v, parsed %v)", len(want), kind, len(got), want, got)
	}
	for i := range want {
		if want[i] != got[i] {
			return fmt.Sprintf("%s %d: expected\n  %s\nparsed\n  %s", kind, i, want[i], got[i])
		}
	}
	return ""
}

func exprFeatures(tc gen.TextCase) (twoLevels, method, paren bool) {
	level := func(op string) int {
		switch op {
		case "||":
			return 0
		case "&&":
			return 1
		case "<", "<=", ">", ">=", "==":
			return 2
		case "+", "-":
			return 3
		case "*", "/":
			return 4
		case "!":
			return 5
		}
		return -1
	}
	visit := func(e *m.Expr) {
		seen := map[int]bool{}
		for _, o := range e.Postfix() {
			if o.Kind == "val" {
				continue
			}
			if l := level(o.Code); l >= 0 {
				seen[l] = true
			} else if o.Code == "()" {
				paren = true
			} else {
				method = true
			}
		}
		if len(seen) >= 2 {
			twoLevels = true
		}
	}
	each := func(r m.Rule) {
		for _, e := range r.Exprs {
			visit(e)
		}
	}
	for _, r := range tc.Rules {
		each(r)
	}
	for _, c := range tc.Checks {
		for _, q := range c.Queries {
			each(q)
		}
	}
	for _, p := range tc.Policies {
		for _, q := range p.Queries {
			each(q)
		}
	}
	return
}

func checkC14(c C14Case, rec *obs.Recorder) *obs.Violation {
	p, err, pan := parseText(c)
	rec.Label("class:" + c.Class)
	rec.Label("entry:" + c.TC.Entry)
	if c.Via != "" {
		rec.Label("via:" + c.Via)
	}
	show := fmt.Sprintf("%s text %q", c.TC.Entry, c.TC.Text)
	if len(c.TC.Params) > 0 {
		show += fmt.Sprintf(" with parameters %v", paramText(c.TC.Params))
	}
	if pan != "" {
		return obs.ViolK("parse-panic", "%s: the parse function panicked: %s", show, pan)
	}
	switch c.Class {
	case "grammar":
		if err != nil {
			return obs.ViolK("grammar-rejected", "%s is in the documented grammar, the parser returned an error: %v", show, err)
		}
		gf, gr, gc, gp, lerr := liftParsed(p)
		if lerr != nil {
			return obs.ViolK("nil-term", "%s: the parsed structure holds an unusable term: %v", show, lerr)
		}
		wf, wr, wc, wp := expectedKeys(c.TC)
		for _, d := range []string{firstDiff("facts", wf, gf), firstDiff("rules", wr, gr), firstDiff("checks", wc, gc), firstDiff("policies", wp, gp)} {
			if d != "" {
				return obs.ViolK("structure", "%s: %s", show, d)
			}
		}
		two, method, paren := exprFeatures(c.TC)
		for l, on := range map[string]bool{"two-precedence-levels": two, "method-call": method, "parentheses": paren, "parameters": len(c.TC.Params) > 0} {
			if on {
				rec.Label(l)
			}
		}
		hasSet := strings.Contains(c.TC.Text, "[")
		if (two || method || len(c.TC.Params) > 0 || hasSet) && rec.NonTrivial(c.TC.Entry+"|"+c.TC.Text) {
			rec.Sample(map[string]any{"entry": c.TC.Entry, "text": c.TC.Text, "parameters": paramText(c.TC.Params)})
		}
	case "must-error":
		if err == nil {
			key := "accepted:" + c.Why
			return obs.ViolK(key, "%s must be reported as an error (%s), the parser accepted it", show, c.Why)
		}
		if rec.NonTrivial("E|" + c.TC.Entry + "|" + c.TC.Text) {
			rec.Sample(map[string]any{"entry": c.TC.Entry, "text": c.TC.Text, "must_error_because": c.Why})
		}
		rec.Label("why:" + c.Why)
		return nil
	}
	if err == nil {
		if up := useParsed(p); up != "" {
			return obs.ViolK("use-panic", "%s parsed without error, but using the result (builder / block builder / authorizer) panicked: %s", show, up)
		}
		if c.Class == "robust" {
			rec.Label("robust:parsed")
			if rec.NonTrivial("R|" + c.TC.Entry + "|" + c.TC.Text) {
				rec.Sample(map[string]any{"entry": c.TC.Entry, "text": c.TC.Text, "class": "corrupted text that still parses"})
			}
		}
	}
	return nil
}

func paramText(ps map[string]m.Term) map[string]string {
	out := map[string]string{}
	for k, v := range ps {
		out[k] = v.Text()
	}
	return out
}

var c14Entries = []string{"fact", "rule", "check", "policy", "block", "authorizer"}

// mustErrorText builds a text that the property says must be reported as an error.
func mustErrorText(t *rapid.T) (gen.TextCase, string) {
	why := rapid.SampledFrom([]string{"unbound-parameter-in-predicate", "unbound-parameter-in-expression", "date-without-zone-in-predicate",
		"date-without-zone-in-expression", "date-month-13", "bytes-odd-digits", "bytes-non-hex-tail", "variable-in-set-in-predicate",
		"variable-in-set-in-expression", "chained-comparison", "chained-equality", "bytes-odd-digits-in-expression",
		"variable-in-set-through-parameter-in-predicate", "variable-in-set-through-parameter-in-expression",
		"parameter-bound-to-nil-in-predicate", "parameter-bound-to-nil-in-expression"}).Draw(t, "why")
	bad := map[string]string{
		"unbound-parameter-in-predicate":  `{missing}`,
		"unbound-parameter-in-expression": `{missing}`,
		"date-without-zone-in-predicate":  `2020-01-02T03:04:05`,
		"date-without-zone-in-expression": `2020-01-02T03:04:05`,
		"date-month-13":                   `2020-13-02T03:04:05Z`,
		"bytes-odd-digits":                `hex:123`,
		"bytes-odd-digits-in-expression":  `hex:abc`,
		"bytes-non-hex-tail":              `hex:12zz`,
		"variable-in-set-in-predicate":    `[1, $v]`,
		"variable-in-set-in-expression":   `[$v]`,
		"chained-comparison":              `1 < $x < 3`,
		"chained-equality":                `$a == $b == true`,
		// the parameter is bound, but to a variable: after substitution the set holds a variable
		"variable-in-set-through-parameter-in-predicate":  `[1, {pvar}]`,
		"variable-in-set-through-parameter-in-expression": `[{pvar}]`,
		// the key is in the map, its value is nil: as unbound as a missing key
		"parameter-bound-to-nil-in-predicate":  `{pnil}`,
		"parameter-bound-to-nil-in-expression": `{pnil}`,
	}[why]
	inExpr := strings.Contains(why, "expression") || strings.HasPrefix(why, "chained")
	entry := rapid.SampledFrom([]string{"rule", "check", "policy", "block", "authorizer"}).Draw(t, "entry")
	if !inExpr && rapid.IntRange(0, 3).Draw(t, "asfact") == 0 {
		entry = "fact"
	}
	pred := fmt.Sprintf("p(%s)", bad)
	if rapid.Bool().Draw(t, "second") {
		pred = fmt.Sprintf("p(1, %s)", bad)
	}
	expr := bad
	if !strings.HasPrefix(why, "chained") {
		// "%s" alone: the offending term is the whole expression (no operator follows it)
		expr = rapid.SampledFrom([]string{"$x == %s", "%s == $x", "$s.contains(%s)", "(%s) == $x", "!($x == %s)", "1 + 2 < 3 || $x == %s", "%s", "%s"}).Draw(t, "exprshape")
		expr = fmt.Sprintf(expr, bad)
	}
	body := "q($x), " + pred
	if inExpr {
		body = "q($x), " + expr
	}
	var text string
	switch entry {
	case "fact":
		text = pred
	case "rule":
		text = "h($x) <- " + body
		if !inExpr && rapid.Bool().Draw(t, "inhead") {
			text = fmt.Sprintf("h(%s) <- q($x)", bad)
		}
	case "check":
		text = "check if " + body
	case "policy":
		text = rapid.SampledFrom([]string{"allow if ", "deny if "}).Draw(t, "pk") + body
	case "block":
		text = "ok(1); check if " + body + ";"
		if !inExpr && rapid.Bool().Draw(t, "asblockfact") && !strings.Contains(bad, "$") {
			text = pred + ";"
		}
	default:
		text = "ok(1); allow if " + body + "; deny if true;"
	}
	return gen.TextCase{Entry: entry, Text: text, Params: map[string]m.Term{"present": m.Int(1), "pvar": m.Var("x"), "pnil": m.Int(0)}}, why
}

// corrupt applies token-level corruptions to a grammatical text.
func corrupt(t *rapid.T, text string) string {
	punct := []string{"(", ")", ",", ";", "[", "]", "<-", "$", "{", "}", "\"", ".", "!", "&&", "||", "==", "<", "hex:", "check if", " or ", "//", "\n", "0x", "-", "{p1}", "2020-01-02T03:04:05", "true", ".length()", "()"}
	n := rapid.IntRange(1, 3).Draw(t, "ncorrupt")
	for i := 0; i < n; i++ {
		if len(text) == 0 {
			text = rapid.SampledFrom(punct).Draw(t, "ins0")
			continue
		}
		pos := rapid.IntRange(0, len(text)-1).Draw(t, "pos")
		switch rapid.IntRange(0, 4).Draw(t, "corrupt") {
		case 0: // delete a character
			text = text[:pos] + text[pos+1:]
		case 1: // duplicate a span
			end := pos + rapid.IntRange(1, 6).Draw(t, "span")
			if end > len(text) {
				end = len(text)
			}
			text = text[:end] + text[pos:end] + text[end:]
		case 2: // swap two characters
			if pos+1 < len(text) {
				b := []byte(text)
				b[pos], b[pos+1] = b[pos+1], b[pos]
				text = string(b)
			}
		case 3: // insert punctuation
			text = text[:pos] + rapid.SampledFrom(punct).Draw(t, "ins") + text[pos:]
		default: // truncate
			text = text[:pos]
		}
	}
	return text
}

func drawC14(t *rapid.T) C14Case {
	c := C14Case{Shared: rapid.IntRange(0, 5).Draw(t, "shared") > 0}
	c.Via = rapid.SampledFrom([]string{"", "", "", "plain", "must", "must"}).Draw(t, "via")
	switch k := rapid.IntRange(0, 9).Draw(t, "class"); {
	case k <= 5:
		c.Class = "grammar"
		c.TC = gen.DrawText(t, gen.TextCfg{MaxDepth: 5, HexString: true}, rapid.SampledFrom(c14Entries).Draw(t, "entry"))
	case k <= 7:
		c.Class = "must-error"
		c.TC, c.Why = mustErrorText(t)
	default:
		c.Class = "robust"
		entry := rapid.SampledFrom(c14Entries).Draw(t, "entry")
		if rapid.IntRange(0, 3).Draw(t, "arbitrary") == 0 {
			c.TC = gen.TextCase{Entry: entry, Text: rapid.StringOfN(rapid.RuneFrom([]rune("abrx$(){}[],;.<-=!&|\"01 \n\t/:hexcheck if")), 0, 40, -1).Draw(t, "arb")}
		} else {
			tc := gen.DrawText(t, gen.TextCfg{MaxDepth: 4, HexString: true}, entry)
			c.TC = gen.TextCase{Entry: entry, Text: corrupt(t, tc.Text), Params: tc.Params}
		}
	}
	return c
}

func TestC14(t *testing.T) {
	rec := obs.New("C14")
	defer rec.Flush(true)
	rec.SetExtra("rule", "rapid, three classes. grammar (60 %): texts generated from the documented grammar for the six entry points (fact, rule, check, policy, block, authorizer), each reached through the long-lived Parser value, FromString*WithParams, FromString* (no parameter map) or the Must() parser (whose documented panic-with-error counts as the error) with random layout (blanks, tabs, newlines between any two tokens unless they would merge), expressions generated by precedence level with explicit parentheses (nesting <= 5), method calls, 'or' alternatives, parameters of every term type bound in a parameter map, sets, dates with Z / numeric offsets / fractions, upper- and lower-case hex, leading comments; oracle = the structure computed by the generator (own postfix emission, grouping markers, dates as instants) must equal the parsed structure exactly. must-error (20 %): unbound parameter, zone-less or month-13 date, odd-length or non-hex byte literal, variable inside a set, written directly or arriving through a parameter bound to a variable (each in a predicate and inside an expression), chained comparison / equality, in every entry point; oracle = an error is returned. robust (20 %): arbitrary strings and token-level corruptions (delete, duplicate, swap, insert punctuation, truncate) of grammatical texts; oracle = no panic in any parse function, and every successfully parsed element can be added to a Builder, a BlockBuilder and an authorizer (element by element and as one ParsedBlock / ParsedAuthorizer value through AddBlock / AddAuthorizer), the token built and authorized, without panic. Non-trivial (grammar) = the text has an expression with operators of two precedence levels, a method call, a parameter or a set; distinct by text.")
	rec.SetExtra("assumptions", []string{"identifiers follow the lexer's rule and avoid the prefixes the lexer reserves (prefix, suffix, matches, length, contains, true, false, hex:); integers are written in canonical decimal; strings contain no quote or backslash", "time.Parse(RFC3339) is a shared primitive"})
	harness.RunWith(t, harness.Spec[C14Case]{ID: "C14", Draw: drawC14, Check: checkC14}, rec)
}

// FuzzC14Text: native fuzzing of the parse functions and of first use (thorough tier only).
func FuzzC14Text(f *testing.F) {
	for _, s := range []string{`right("file1", "read")`, `h($x) <- q($x), $x > 1 && !($x == 3), ["a"].contains($y)`, `check if resource($r), $r.starts_with("/a") or admin(true)`,
		`allow if true`, `a(1); b($x) <- a($x); check if b(1);`, `p(hex:00ff, 2020-01-02T03:04:05Z, [1,2], {p})`} {
		f.Add(s, uint8(0))
	}
	f.Fuzz(func(t *testing.T, text string, entry uint8) {
		c := C14Case{Class: "robust", TC: gen.TextCase{Entry: c14Entries[int(entry)%len(c14Entries)], Text: text, Params: map[string]m.Term{"p": m.Int(1)}}, Shared: true}
		p, err, pan := parseText(c)
		if pan != "" {
			t.Fatalf("parse panic: %s", pan)
		}
		if err == nil {
			if up := useParsed(p); up != "" {
				t.Fatalf("use panic: %s", up)
			}
		}
	})
}
