package props

import (
	"crypto/ed25519"
	"fmt"

	biscuit "github.com/biscuit-auth/biscuit-go/v2"

	"verif/internal/bridge"
	m "verif/internal/model"
)

// mkToken builds the token of a scenario through the public builders and,
// when reload is set, passes it through Serialize/Unmarshal.
func mkToken(tok m.Token, rootSeed uint64, reload bool) (*biscuit.Biscuit, ed25519.PublicKey, error) {
	b, pub, err := bridge.BuildToken(rootSeed, rootSeed^0x9e3779b97f4a7c15, tok)
	if err != nil {
		return nil, pub, fmt.Errorf("build: %w", err)
	}
	if reload {
		ser, err := b.Serialize()
		if err != nil {
			return nil, pub, fmt.Errorf("serialize: %w", err)
		}
		b, err = biscuit.Unmarshal(ser)
		if err != nil {
			return nil, pub, fmt.Errorf("unmarshal: %w", err)
		}
	}
	return b, pub, nil
}

// authorizeOnce verifies tok under pub, loads az, runs Authorize and the panel.
func authorizeOnce(b *biscuit.Biscuit, pub ed25519.PublicKey, az m.Authz, panel []m.Rule) (bridge.Outcome, []string, error) {
	a, err := bridge.NewAuthorizer(b, pub, az)
	if err != nil {
		return bridge.Outcome{}, nil, err
	}
	o := bridge.Authorize(a)
	var qs []string
	for _, q := range panel {
		qs = append(qs, bridge.QueryKey(a, q))
	}
	return o, qs, nil
}

func scenarioText(tok m.Token, az m.Authz) string {
	return "token " + tok.Text() + " | authorizer {" + az.Text() + "}"
}

func newAuthz(b *biscuit.Biscuit, pub ed25519.PublicKey, az m.Authz) (biscuit.Authorizer, error) {
	return bridge.NewAuthorizer(b, pub, az)
}

func queryKey(a biscuit.Authorizer, q m.Rule) string { return bridge.QueryKey(a, q) }
