package props

import (
	"crypto/ed25519"
	"fmt"

	biscuit "github.com/biscuit-auth/biscuit-go/v2"

	"verif/internal/bridge"
	m "verif/internal/model"
)

// scenarioBase is a caller-supplied base symbol table (biscuit.WithSymbols): strings no scenario uses.
var scenarioBase = []string{"verif_base_0", "verif_base_1", "verif_base_2"}

// mkToken builds the token of a scenario through the public builders and,
// when reload is set, passes it through Serialize/Unmarshal. One scenario in five
// is composed over a custom base symbol table.
func mkToken(tok m.Token, rootSeed uint64, reload bool) (*biscuit.Biscuit, ed25519.PublicKey, error) {
	return mkTokenOpt(tok, rootSeed, reload, true)
}

// mkTokenOpt: allowBase=false keeps the default base table (for callers that go on
// editing the token at wire level with the default offsets).
func mkTokenOpt(tok m.Token, rootSeed uint64, reload bool, allowBase bool) (*biscuit.Biscuit, ed25519.PublicKey, error) {
	var base []string
	if allowBase && rootSeed%5 == 0 {
		base = scenarioBase
	}
	pub, priv := bridge.RootKey(rootSeed)
	rng := bridge.NewDetRand(rootSeed ^ 0x9e3779b97f4a7c15)
	b, err := bridge.BuildAuthorityBase(priv, rng, tok.Blocks[0], nil, base)
	if err != nil {
		return nil, pub, fmt.Errorf("build: %w", err)
	}
	for _, blk := range tok.Blocks[1:] {
		if b, err = bridge.AppendBlock(b, rng, blk); err != nil {
			return nil, pub, fmt.Errorf("build: %w", err)
		}
	}
	if reload {
		ser, err := b.Serialize()
		if err != nil {
			return nil, pub, fmt.Errorf("serialize: %w", err)
		}
		b, err = bridge.UnmarshalBase(ser, base)
		if err != nil {
			return nil, pub, fmt.Errorf("unmarshal: %w", err)
		}
	}
	return b, pub, nil
}

// authorizeOnce verifies tok under pub, loads az, runs Authorize and the panel.
func authorizeOnce(b *biscuit.Biscuit, pub ed25519.PublicKey, az m.Authz, panel []m.Rule) (bridge.Outcome, []string, error) {
	a, err := bridge.NewAuthorizer(b, pub, az)
	if err != nil {
		return bridge.Outcome{}, nil, err
	}
	o := bridge.Authorize(a)
	var qs []string
	for _, q := range panel {
		qs = append(qs, bridge.QueryKey(a, q))
	}
	return o, qs, nil
}

func scenarioText(tok m.Token, az m.Authz) string {
	return "token " + tok.Text() + " | authorizer {" + az.Text() + "}"
}

func newAuthz(b *biscuit.Biscuit, pub ed25519.PublicKey, az m.Authz) (biscuit.Authorizer, error) {
	return bridge.NewAuthorizer(b, pub, az)
}

func queryKey(a biscuit.Authorizer, q m.Rule) string { return bridge.QueryKey(a, q) }
