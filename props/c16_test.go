package props

import (
	"crypto/ed25519"
	"errors"
	"fmt"
	"testing"

	biscuit "github.com/biscuit-auth/biscuit-go/v2"
	"pgregory.net/rapid"

	"verif/internal/bridge"
	"verif/internal/gen"
	"verif/internal/harness"
	m "verif/internal/model"
	"verif/internal/obs"
	"verif/internal/ref"
	"verif/internal/wire"
)

// C16 — the root key identifier travels with the token and selects exactly one key.

type KeyEntry struct {
	ID    uint32 `json:"id"`
	Right bool   `json:"right"` // the real root key, or some other key
	Seed  uint64 `json:"seed"`  // seed of the other key
}

type C16Case struct {
	Spec    TokSpec    `json:"spec"`  // authority only; KeyID set or nil
	Steps   []string   `json:"steps"` // append | seal | reload
	Extra   []m.Block  `json:"extra"`
	Map     []KeyEntry `json:"map"`
	Default string     `json:"default"` // none | right | wrong
}

func idText(id *uint32) string {
	if id == nil {
		return "absent"
	}
	return fmt.Sprint(*id)
}

func sameID(a, b *uint32) bool {
	if a == nil || b == nil {
		return a == nil && b == nil
	}
	return *a == *b
}

func checkC16(c C16Case, rec *obs.Recorder) *obs.Violation {
	tok, _, pub, err := c.Spec.build()
	if err != nil {
		return obs.Violf("cannot build: %v", err)
	}
	want := c.Spec.KeyID
	rng := bridge.NewDetRand(c.Spec.RngKey + 99)
	history := "build"
	derived := 0
	sealed := false
	nextExtra := 0
	observe := func() *obs.Violation {
		if got := tok.RootKeyID(); !sameID(got, want) {
			return obs.ViolK("id-lost", "after [%s]: RootKeyID() = %s, token was created with id %s", history, idText(got), idText(want))
		}
		ser, err := tok.Serialize()
		if err != nil {
			return obs.Violf("after [%s]: serialize: %v", history, err)
		}
		env, err := wire.DecodeBiscuit(ser)
		if err != nil {
			return obs.Violf("after [%s]: independent reader: %v", history, err)
		}
		if !sameID(env.RootKeyID, want) {
			return obs.ViolK("id-lost", "after [%s]: serialized rootKeyId = %s, token was created with id %s", history, idText(env.RootKeyID), idText(want))
		}
		return nil
	}
	if v := observe(); v != nil {
		return v
	}
	for _, st := range c.Steps {
		switch st {
		case "append":
			if sealed || nextExtra >= len(c.Extra) {
				continue
			}
			nt, err := bridge.AppendBlock(tok, rng, c.Extra[nextExtra])
			nextExtra++
			if err != nil {
				return obs.Violf("after [%s]: append failed: %v", history, err)
			}
			tok = nt
			derived++
		case "seal":
			if sealed {
				continue
			}
			nt, err := tok.Seal(rng)
			if err != nil {
				return obs.Violf("after [%s]: seal failed: %v", history, err)
			}
			tok, sealed = nt, true
			derived++
		case "reload":
			ser, err := tok.Serialize()
			if err != nil {
				return obs.Violf("after [%s]: serialize: %v", history, err)
			}
			nt, err := biscuit.Unmarshal(ser)
			if err != nil {
				return obs.Violf("after [%s]: unmarshal: %v", history, err)
			}
			tok = nt
		}
		history += "," + st
		if v := observe(); v != nil {
			return v
		}
		if _, v := c16Lookup(c, tok, pub, want, history); v != nil {
			return v
		}
	}

	cls, v := c16Lookup(c, tok, pub, want, history)
	if v != nil {
		return v
	}
	rec.Label("lookup:" + cls)
	rec.Label("id:" + map[bool]string{true: "absent", false: "present"}[want == nil])
	if derived >= 1 && want != nil && len(c.Map) >= 2 {
		if rec.NonTrivial(fmt.Sprintf("%s|%s|%v|%s|%s", idText(want), history, c.Map, c.Default, cls)) {
			rec.Sample(map[string]any{"id": idText(want), "history": history, "map": c.Map, "default": c.Default, "expected": cls})
		}
	}
	return nil
}

// c16Lookup verifies tok through every key-selection interface and compares with the
// reference projection; returns the expected class.
func c16Lookup(c C16Case, tok *biscuit.Biscuit, pub ed25519.PublicKey, want *uint32, history string) (string, *obs.Violation) {
	keys := map[uint32]ed25519.PublicKey{}
	for _, e := range c.Map {
		if e.Right {
			keys[e.ID] = pub
		} else {
			k, _ := bridge.RootKey(e.Seed + 1<<40)
			keys[e.ID] = k
		}
	}
	var def *ed25519.PublicKey
	switch c.Default {
	case "right":
		d := pub
		def = &d
	case "wrong":
		d, _ := bridge.RootKey(1<<41 + c.Spec.RootSeed)
		def = &d
	}
	sel, ok := ref.LookupKey(want, keys, def)
	cls := "no-key"
	if ok {
		cls = "wrong-key"
		if sel.Equal(pub) {
			cls = "right-key"
		}
	}
	desc := fmt.Sprintf("token id %s after [%s], key map %v, default %s", idText(want), history, c.Map, c.Default)
	// the library's map-based projection, and a caller-written projection that answers
	// (nil, nil) for "no such key" and records the identifier it was asked for
	var asked []*uint32
	custom := func(id *uint32) (ed25519.PublicKey, error) {
		if id == nil {
			asked = append(asked, nil)
		} else {
			v := *id
			asked = append(asked, &v)
		}
		k, ok := ref.LookupKey(id, keys, def)
		if !ok {
			return nil, nil
		}
		return k, nil
	}
	// a verifier keeps one projection value and uses it for every token it sees: the token seen
	// just before (one with an identifier if ours has none, one without if ours has one) leaves
	// nothing behind in it
	_, priv := bridge.RootKey(c.Spec.RootSeed)
	var decoyID *uint32
	if want == nil {
		d := uint32(7)
		for _, e := range c.Map {
			d = e.ID
			break
		}
		decoyID = &d
	}
	decoy, derr := bridge.BuildAuthority(priv, bridge.NewDetRand(c.Spec.RngKey+4242), m.Block{}, decoyID)
	if derr != nil {
		return cls, obs.Violf("%s: cannot build the decoy token: %v", desc, derr)
	}
	kept := biscuit.WithRootPublicKeys(keys, def)
	for _, via := range []string{"WithRootPublicKeys", "custom projection", "kept projection"} {
		var aerr error
		if via == "kept projection" {
			_, _ = decoy.AuthorizerFor(kept, bridge.WorldOpts())
			_, aerr = tok.AuthorizerFor(kept, bridge.WorldOpts())
		} else if via == "custom projection" {
			_, aerr = tok.AuthorizerFor(custom, bridge.WorldOpts())
			if len(asked) != 1 || !sameID(asked[0], want) {
				ids := []string{}
				for _, a := range asked {
					ids = append(ids, idText(a))
				}
				return cls, obs.ViolK("projection-arg", "%s: the key source was asked for %v, the token's identifier is %s", desc, ids, idText(want))
			}
		} else {
			_, aerr = tok.AuthorizerFor(biscuit.WithRootPublicKeys(keys, def), bridge.WorldOpts())
		}
		switch cls {
		case "no-key":
			if aerr == nil || !errors.Is(aerr, biscuit.ErrNoPublicKeyAvailable) {
				return cls, obs.Violf("%s (%s): no key is registered for this token, expected ErrNoPublicKeyAvailable, got %v", desc, via, aerr)
			}
		case "right-key":
			if aerr != nil {
				return cls, obs.ViolK("lookup-right", "%s (%s): the key registered for this token is its root key, AuthorizerFor returned %v", desc, via, aerr)
			}
		case "wrong-key":
			if aerr == nil {
				return cls, obs.Violf("%s (%s): the key registered for this token is not its root key, AuthorizerFor succeeded", desc, via)
			}
			if errors.Is(aerr, biscuit.ErrNoPublicKeyAvailable) {
				return cls, obs.Violf("%s (%s): a (wrong) key is registered for this token, yet the error is ErrNoPublicKeyAvailable", desc, via)
			}
		}
	}
	// a single key ignores the identifier altogether
	if _, err := tok.AuthorizerFor(biscuit.WithSingularRootPublicKey(pub), bridge.WorldOpts()); err != nil {
		return cls, obs.Violf("%s: WithSingularRootPublicKey(root) is refused: %v", desc, err)
	}
	other, _ := bridge.RootKey(1<<42 + c.Spec.RootSeed)
	if _, err := tok.AuthorizerFor(biscuit.WithSingularRootPublicKey(other), bridge.WorldOpts()); err == nil || errors.Is(err, biscuit.ErrNoPublicKeyAvailable) {
		return cls, obs.Violf("%s: WithSingularRootPublicKey(another key) gives %v", desc, err)
	}
	return cls, nil
}

func drawC16(t *rapid.T) C16Case {
	s := gen.DrawSchema(t, gen.SmallProfile, 1, 2)
	c := C16Case{Spec: TokSpec{RootSeed: rapid.Uint64Range(1, 1<<16).Draw(t, "root"), RngKey: rapid.Uint64Range(1, 1<<32).Draw(t, "rng"),
		Blocks: []m.Block{drawSimpleBlock(t, s)}}}
	ids := []uint32{0, 1, 2, 1 << 31, 1<<32 - 1, 1<<32 - 2, 7}
	drawID := func(label string) uint32 {
		if rapid.IntRange(0, 4).Draw(t, label+".rnd") == 0 {
			return rapid.Uint32().Draw(t, label+".v")
		}
		return rapid.SampledFrom(ids).Draw(t, label)
	}
	if rapid.IntRange(0, 4).Draw(t, "hasid") > 0 {
		id := drawID("id")
		c.Spec.KeyID = &id
	}
	c.Steps = rapid.SliceOfN(rapid.SampledFrom([]string{"append", "append", "seal", "reload", "reload"}), 0, 6).Draw(t, "steps")
	for range c.Steps {
		c.Extra = append(c.Extra, drawSimpleBlock(t, s))
	}
	n := rapid.IntRange(0, 4).Draw(t, "nmap")
	for i := 0; i < n; i++ {
		e := KeyEntry{Right: rapid.Bool().Draw(t, "right"), Seed: uint64(i)}
		switch rapid.IntRange(0, 3).Draw(t, "which") {
		case 0, 1:
			if c.Spec.KeyID != nil {
				e.ID = *c.Spec.KeyID
				break
			}
			fallthrough
		case 2:
			if c.Spec.KeyID != nil {
				e.ID = *c.Spec.KeyID + uint32(rapid.SampledFrom([]int{1, -1}).Draw(t, "off"))
				break
			}
			fallthrough
		default:
			e.ID = drawID("mapid")
		}
		c.Map = append(c.Map, e)
	}
	c.Default = rapid.SampledFrom([]string{"none", "right", "wrong"}).Draw(t, "default")
	return c
}

func TestC16(t *testing.T) {
	rec := obs.New("C16")
	defer rec.Flush(true)
	rec.SetExtra("rule", "rapid: identifier in {absent, 0, 1, 2, 2^31, 2^32-2, 2^32-1, random} (given before the random-source option for odd ids, after it for even ids) x derivation history of 0-6 append / seal / serialize+unmarshal steps x key map of 0-4 entries (right or wrong key under the token's id, under id+-1, under unrelated ids) x default key {none, right, wrong}. Oracle: RootKeyID() and the independently decoded rootKeyId equal the creation id after every step; after every step AuthorizerFor, through WithRootPublicKeys (a fresh value, and one kept value that is first used for a decoy token of the opposite identifier situation) and through a caller-written projection (which must be asked exactly once, for exactly the token's identifier, and answers (nil, nil) when it has no key), succeeds iff the reference projection selects the real root key, fails with ErrNoPublicKeyAvailable iff it selects nothing, fails with another error iff it selects a wrong key; WithSingularRootPublicKey ignores the identifier. Non-trivial = derived token (>=1 append or seal) carrying an id, looked up in a map with >= 2 entries; distinct by (id, history, map, default).")
	rec.SetExtra("assumptions", []string{"the independent wire reader gives the serialized identifier"})
	harness.RunWith(t, harness.Spec[C16Case]{ID: "C16", Draw: drawC16, Check: checkC16}, rec)
}
