package props

import (
	"errors"
	"fmt"
	"regexp"
	"runtime"
	"strings"
	"testing"
	"time"

	biscuit "github.com/biscuit-auth/biscuit-go/v2"
	"github.com/biscuit-auth/biscuit-go/v2/datalog"
	"pgregory.net/rapid"

	"verif/internal/bridge"
	"verif/internal/gen"
	"verif/internal/harness"
	m "verif/internal/model"
	"verif/internal/obs"
	"verif/internal/ref"
)

// C11 — evaluation is bounded: limits honoured, no silent truncation, no stranded work.

type C11Case struct {
	Class    string   `json:"class"` // small | blowup | chain | heavy | unbound-head | expr-error
	Facts    []m.Pred `json:"facts"`
	Rules    []m.Rule `json:"rules"`
	MaxFacts int      `json:"max_facts"`
	MaxIter  int      `json:"max_iter"`
	MaxDurMs int      `json:"max_dur_ms"`
	Entry    string   `json:"entry"` // world | newverifier | authorizer | authorizerfor
	Place    string   `json:"place"` // authority | authorizer | block
	RootSeed uint64   `json:"root_seed"`
}

func (c C11Case) text() string {
	var parts []string
	for _, f := range c.Facts {
		parts = append(parts, f.Text())
	}
	for _, r := range c.Rules {
		parts = append(parts, r.Text())
	}
	p := strings.Join(parts, "; ")
	if len(p) > 600 {
		p = p[:600] + "..."
	}
	return fmt.Sprintf("[%s] %s | limits facts=%d iterations=%d duration=%dms | entry=%s place=%s", c.Class, p, c.MaxFacts, c.MaxIter, c.MaxDurMs, c.Entry, c.Place)
}

// ---- goroutine quiescence probe ----

var goroutineHeader = regexp.MustCompile(`^goroutine (\d+) \[([^\]]*)\]`)

type dlGoroutines struct {
	blockedSend map[string]bool // ids of datalog goroutines parked in chan send
	active      int             // datalog goroutines in any other state
}

func snapshotDatalogGoroutines() dlGoroutines {
	buf := make([]byte, 1<<20)
	for {
		n := runtime.Stack(buf, true)
		if n < len(buf) {
			buf = buf[:n]
			break
		}
		buf = make([]byte, 2*len(buf))
	}
	out := dlGoroutines{blockedSend: map[string]bool{}}
	for _, g := range strings.Split(string(buf), "\n\n") {
		if !strings.Contains(g, "biscuit-go/v2/datalog.") {
			continue
		}
		mm := goroutineHeader.FindStringSubmatch(g)
		if mm == nil {
			continue
		}
		state := mm[2]
		// parked on a channel operation: a plain send, or a select between a send and a "done"
		// channel that nobody will ever close
		if strings.HasPrefix(state, "chan send") || strings.HasPrefix(state, "select") {
			out.blockedSend[mm[1]] = true
		} else {
			out.active++
		}
	}
	return out
}

// strandedAfter reports datalog goroutines that were not parked before the
// evaluation and stay parked in "chan send" while no datalog goroutine can run:
// their only receiver has returned. ok=false: could not reach quiescence in time.
func strandedAfter(before dlGoroutines) (stranded []string, ok bool) {
	deadline := time.Now().Add(12 * time.Second)
	var prev map[string]bool
	stable := 0
	for time.Now().Before(deadline) {
		s := snapshotDatalogGoroutines()
		if s.active > 0 {
			stable, prev = 0, nil
			time.Sleep(20 * time.Millisecond)
			continue
		}
		cur := map[string]bool{}
		for id := range s.blockedSend {
			if !before.blockedSend[id] {
				cur[id] = true
			}
		}
		if prev != nil && sameSet(prev, cur) {
			stable++
		} else {
			stable = 0
		}
		prev = cur
		if stable >= 2 || (stable >= 1 && len(cur) == 0) {
			for id := range cur {
				stranded = append(stranded, id)
			}
			return stranded, true
		}
		if len(cur) == 0 {
			time.Sleep(5 * time.Millisecond)
		} else {
			time.Sleep(60 * time.Millisecond) // a candidate: look again, twice, before calling it stranded
		}
	}
	return nil, false
}

func sameSet(a, b map[string]bool) bool {
	if len(a) != len(b) {
		return false
	}
	for k := range a {
		if !b[k] {
			return false
		}
	}
	return true
}

// ---- running a case ----

type c11Run struct {
	err      error
	facts    []m.Pred
	elapsed  time.Duration
	viaToken bool
	viaQuery bool
	// a second Query after an error, with nothing added in between, reported success
	secondNil   bool
	secondFacts []m.Pred
}

func limitName(err error) string {
	switch {
	case err == nil:
		return "nil"
	case errors.Is(err, datalog.ErrWorldRunLimitMaxFacts):
		return "max-facts"
	case errors.Is(err, datalog.ErrWorldRunLimitMaxIterations):
		return "max-iterations"
	case errors.Is(err, datalog.ErrWorldRunLimitTimeout):
		return "timeout"
	}
	return "other"
}

func (c C11Case) worldOptions() []datalog.WorldOption {
	return []datalog.WorldOption{datalog.WithMaxFacts(c.MaxFacts), datalog.WithMaxIterations(c.MaxIter), datalog.WithMaxDuration(time.Duration(c.MaxDurMs) * time.Millisecond)}
}

func runC11(c C11Case) (c11Run, error) {
	var r c11Run
	if c.Entry == "world" {
		syms := &datalog.SymbolTable{}
		w := datalog.NewWorld(c.worldOptions()...)
		for _, f := range c.Facts {
			w.AddFact(datalog.Fact{Predicate: bridge.DLPred(f, syms)})
		}
		for _, rl := range c.Rules {
			w.AddRule(bridge.DLRule(rl, syms))
		}
		t0 := time.Now()
		r.err = w.Run(syms)
		r.elapsed = time.Since(t0)
		if r.err == nil {
			fs, err := bridge.LiftDLFacts(w.Facts(), syms)
			if err != nil {
				return r, err
			}
			r.facts = fs
		}
		return r, nil
	}
	// token-level entry points: the program sits in the authority block, in the authorizer, or in a later block
	r.viaToken = true
	tok := m.Token{Blocks: []m.Block{{}}}
	az := m.Authz{Policies: []m.Policy{{Allow: true, Queries: []m.Rule{{Head: m.Pred{Name: "policy"}}}}}}
	switch c.Place {
	case "authority":
		tok.Blocks[0] = m.Block{Facts: bridge.DedupFacts(c.Facts), Rules: c.Rules}
	case "block":
		tok.Blocks = append(tok.Blocks, m.Block{Facts: bridge.DedupFacts(c.Facts), Rules: c.Rules})
	default:
		az.Facts, az.Rules = c.Facts, c.Rules
	}
	b, pub, err := bridge.BuildToken(c.RootSeed, c.RootSeed+1, tok)
	if err != nil {
		return r, err
	}
	opt := biscuit.WithWorldOptions(c.worldOptions()...)
	var a biscuit.Authorizer
	switch c.Entry {
	case "newverifier":
		a, err = biscuit.NewVerifier(b, opt)
	case "authorizer":
		a, err = b.Authorizer(pub, opt)
	default:
		a, err = b.AuthorizerFor(biscuit.WithSingularRootPublicKey(pub), opt)
	}
	if err != nil {
		return r, err
	}
	if c.RootSeed%3 == 0 {
		// limits given at creation also hold after a Reset (a long-lived authorizer serves many requests)
		a.AddFact(bridge.ToFact(m.P("warmup", m.Int(1))))
		a.Reset()
	}
	bridge.AddAuthz(a, az)
	probe := bridge.ToRule(m.Rule{Head: m.P("probe_out", m.Var("x")), Body: []m.Pred{m.P("probe_none", m.Var("x"))}})
	// readBack reads the whole model, predicate by predicate (names and arities from the reference)
	readBack := func() (facts []m.Pred, qerr error, herr error) {
		seen := map[string]bool{}
		for _, f := range ref.LFP(c.Facts, c.Rules).Facts.List() {
			k := fmt.Sprintf("%s/%d", f.Name, len(f.Terms))
			if seen[k] {
				continue
			}
			seen[k] = true
			vars := make([]m.Term, len(f.Terms))
			for i := range vars {
				vars[i] = m.Var(fmt.Sprintf("v%d", i))
			}
			fs, err := a.Query(bridge.ToRule(m.Rule{Head: m.P(f.Name, vars...), Body: []m.Pred{m.P(f.Name, vars...)}}))
			if err != nil {
				return nil, err, nil
			}
			lifted, err := bridge.LiftFactSet(fs)
			if err != nil {
				return nil, nil, err
			}
			facts = append(facts, lifted...)
		}
		return facts, nil, nil
	}
	inAuthorizer := c.Place != "authority" && c.Place != "block"
	// asking again after an error, with nothing added: either the error again, or (the evaluation went
	// on and finished this time) the complete model -- never success over a truncated model
	askAgain := func() error {
		if !inAuthorizer || c.Class == "heavy" || r.err == nil {
			return nil
		}
		if _, err2 := a.Query(probe); err2 != nil {
			return nil
		}
		facts, qerr, herr := readBack()
		if herr != nil {
			return herr
		}
		if qerr == nil {
			r.secondNil, r.secondFacts = true, facts
		}
		return nil
	}
	if inAuthorizer && c.RootSeed%2 == 1 {
		// Query is an entry point too: it runs the authorizer's own facts and rules under the same limits
		r.viaQuery = true
		t0 := time.Now()
		_, r.err = a.Query(probe)
		r.elapsed = time.Since(t0)
		if r.err != nil {
			return r, askAgain()
		}
		if c.Class == "heavy" {
			return r, nil
		}
		// the evaluation succeeded: read the whole model back
		facts, qerr, herr := readBack()
		if herr != nil {
			return r, herr
		}
		if qerr != nil {
			r.err = qerr
			return r, nil
		}
		r.facts = facts
		r.viaToken = false // the facts are known: compare them with the fixpoint
		return r, nil
	}
	t0 := time.Now()
	r.err = a.Authorize()
	r.elapsed = time.Since(t0)
	return r, askAgain()
}

// c11Storm: c.MaxDurMs evaluations of the ladder under limits of 100-300 microseconds. Every
// evaluation either reports an error or has walked the whole ladder; "success" over a part of it
// is a violation whatever the timing was.
func c11Storm(c C11Case, rec *obs.Recorder) *obs.Violation {
	rec.Label("class:storm")
	want := len(c.Rules) + 1
	timeouts, complete := 0, 0
	for i := 0; i < c.MaxDurMs; i++ {
		syms := &datalog.SymbolTable{}
		w := datalog.NewWorld(datalog.WithMaxFacts(c.MaxFacts), datalog.WithMaxIterations(c.MaxIter),
			datalog.WithMaxDuration(time.Duration(100+(i%5)*50)*time.Microsecond))
		for _, f := range c.Facts {
			w.AddFact(datalog.Fact{Predicate: bridge.DLPred(f, syms)})
		}
		for _, rl := range c.Rules {
			w.AddRule(bridge.DLRule(rl, syms))
		}
		err := w.Run(syms)
		switch {
		case err == nil && len(*w.Facts()) != want:
			return obs.ViolK("storm", "ladder of %d rules, evaluation %d of %d under a limit of %d microseconds: Run returned nil with %d of %d facts (a timed-out evaluation reported as success)", len(c.Rules), i+1, c.MaxDurMs, 100+(i%5)*50, len(*w.Facts()), want)
		case err == nil:
			complete++
		case errors.Is(err, datalog.ErrWorldRunLimitTimeout):
			timeouts++
		default:
			return obs.Violf("ladder of %d rules under a time limit only: unexpected error %v", len(c.Rules), err)
		}
	}
	rec.EvalN(c.MaxDurMs - 1)
	rec.Count("storm_evaluations", c.MaxDurMs)
	rec.Count("storm_timeouts", timeouts)
	if timeouts > 0 && rec.NonTrivial(fmt.Sprintf("storm|%d|%d", len(c.Rules), c.MaxDurMs)) {
		rec.Sample(map[string]any{"case": fmt.Sprintf("ladder of %d rules evaluated %d times under 100-300 microseconds", len(c.Rules), c.MaxDurMs), "timeouts": timeouts, "complete": complete})
	}
	return nil
}

func checkC11(c C11Case, rec *obs.Recorder) *obs.Violation {
	if c.Class == "storm" {
		return c11Storm(c, rec)
	}
	var want ref.LFPResult
	if c.Class == "heavy" {
		// by construction nothing is derivable (the last body predicate has no fact); the
		// reference matcher is not run on a join that is meant to take seconds
		want = ref.LFPResult{Facts: ref.NewFactSet(c.Facts...)}
	} else {
		want = ref.LFP(c.Facts, c.Rules)
	}
	illFormed := c.Class == "unbound-head" || c.Class == "expr-error" || c.Class == "ill-formed-mix"
	if want.Ambiguous && !illFormed {
		rec.OutOfFragment()
		return nil
	}
	// ill-formed programs whose outcome depends on evaluation order: only "nothing is stranded" is asserted
	onlyStranding := illFormed && want.Ambiguous
	size := want.Facts.Len()
	longDur := c.MaxDurMs >= 10000
	heavy := c.Class == "heavy"
	// which limits are certainly exceeded / certainly not reached (the exact boundary is not asserted)
	factsExceeded := !want.RuleError && size > c.MaxFacts
	itersExceeded := !want.RuleError && want.Rounds >= c.MaxIter+2
	if want.Diverged {
		factsExceeded = true
	}
	// sizes along the way: the fact limit may be hit before the iteration limit and vice versa
	clearlyWithin := !want.RuleError && !want.Diverged && size < c.MaxFacts && want.Rounds+1 <= c.MaxIter && longDur && !heavy

	before := snapshotDatalogGoroutines()
	got, err := runC11(c)
	if err != nil {
		return obs.Violf("%s: harness could not run the case: %v", c.text(), err)
	}
	stranded, quiet := strandedAfter(before)

	name := limitName(got.err)
	rec.Label("class:" + c.Class)
	if heavy {
		rec.SetExtra("heavy_calibration", heavyCalib)
		rec.Count("heavy_elapsed_ms", int(got.elapsed.Milliseconds()))
	}
	rec.Label("entry:" + c.Entry)
	rec.Label("result:" + name)
	if got.viaQuery {
		rec.Label("call:Query")
	}
	nontrivial := factsExceeded || itersExceeded || heavy || illFormed || c.Entry != "world"
	if nontrivial && rec.NonTrivial(c.text()) {
		rec.Sample(map[string]any{"case": c.text(), "reference_size": size, "reference_rounds": want.Rounds, "result": name, "elapsed_ms": got.elapsed.Milliseconds()})
	}

	// (d) no stranded work
	if !quiet {
		rec.Label("quiescence-inconclusive")
	} else if len(stranded) > 0 {
		return obs.ViolK("stranded", "%s: evaluation returned (%s) but %d goroutine(s) started by it stay blocked forever in a channel send (goroutine ids %v): their only receiver has returned", c.text(), name, len(stranded), stranded)
	}

	if onlyStranding {
		rec.Label("order-dependent-ill-formed(stranding only)")
		return nil
	}

	// (a') success on asking again means the fixpoint was reached in the meantime
	if got.secondNil {
		rec.Label("asked-again:success")
		if want.RuleError || want.Diverged {
			return obs.ViolK("second-query", "%s: the evaluation failed with %v; a second Query on the same authorizer, with nothing added, reports success although the program has no fixpoint within any limit (rule error %v)", c.text(), got.err, want.RuleError)
		}
		if d := diffSets(want.Facts.List(), got.secondFacts); d != "" {
			return obs.ViolK("second-query", "%s: the evaluation failed with %v; a second Query on the same authorizer, with nothing added, reports success over a model that is not the fixpoint: %s", c.text(), got.err, d)
		}
	}

	// (a) success means the fixpoint was reached
	if got.err == nil && !got.viaToken {
		if want.RuleError {
			return obs.Violf("%s: a rule is invalid or raises an error on a matching binding, Run returned nil", c.text())
		}
		if d := diffSets(want.Facts.List(), got.facts); d != "" {
			return obs.Violf("%s: Run returned nil but the facts are not the fixpoint: %s", c.text(), d)
		}
		if factsExceeded || itersExceeded {
			return obs.Violf("%s: fixpoint has %d facts after %d rounds, which exceeds the configured limits, Run returned nil", c.text(), size, want.Rounds)
		}
	}
	if got.err == nil && got.viaToken && (factsExceeded || itersExceeded || want.RuleError || (heavy && c.MaxDurMs <= 50)) {
		return obs.ViolK("limits-ignored", "%s: the program exceeds the configured limits (reference: %d facts, %d rounds, rule error %v), Authorize succeeded", c.text(), size, want.Rounds, want.RuleError)
	}

	// (b)/(c) limits are honoured and distinguishable, through every entry point
	switch {
	case heavy && c.MaxDurMs <= 50:
		if name != "timeout" && !(factsExceeded && name == "max-facts") {
			return obs.ViolK("limits-ignored", "%s: a program that needs seconds was given %d ms, expected the timeout sentinel, got %v", c.text(), c.MaxDurMs, got.err)
		}
		if got.elapsed > time.Duration(c.MaxDurMs)*time.Millisecond+5*time.Second {
			// measure again: a single slow return is inconclusive
			late := 1
			for i := 0; i < 2; i++ {
				g2, _ := runC11(c)
				if g2.elapsed > time.Duration(c.MaxDurMs)*time.Millisecond+5*time.Second {
					late++
				}
			}
			if late == 3 {
				return obs.Violf("%s: returned %v after the deadline, three times", c.text(), got.elapsed)
			}
			rec.Label("late-return-inconclusive")
		}
	case factsExceeded && itersExceeded && longDur:
		if name != "max-facts" && name != "max-iterations" {
			return obs.ViolK("limits-ignored", "%s: both the fact and the iteration limit are exceeded (reference: %d facts, %d rounds), got %v", c.text(), size, want.Rounds, got.err)
		}
	case factsExceeded && longDur:
		// the iteration budget may run out before the fact limit is seen
		reachable := false
		for i, s := range want.Sizes {
			if s >= c.MaxFacts && i+1 <= c.MaxIter {
				reachable = true
			}
		}
		if reachable && name != "max-facts" {
			return obs.ViolK("limits-ignored", "%s: the fixpoint has %d facts (limit %d), expected the max-facts sentinel, got %v", c.text(), size, c.MaxFacts, got.err)
		}
		if !reachable && name != "max-facts" && name != "max-iterations" {
			return obs.ViolK("limits-ignored", "%s: limits exceeded, got %v", c.text(), got.err)
		}
	case itersExceeded && longDur:
		if name != "max-iterations" {
			return obs.ViolK("limits-ignored", "%s: the fixpoint needs %d productive rounds (limit %d iterations), expected the max-iterations sentinel, got %v", c.text(), want.Rounds, c.MaxIter, got.err)
		}
	case clearlyWithin:
		if name == "max-facts" || name == "max-iterations" || name == "timeout" {
			return obs.Violf("%s: the program stays within every limit (reference: %d facts, %d rounds), got %v", c.text(), size, want.Rounds, got.err)
		}
	}
	if want.RuleError && got.err == nil {
		return obs.Violf("%s: a rule is invalid or raises an error, evaluation reported success", c.text())
	}
	return nil
}

// heavyN is calibrated once: how many facts make the 5-predicate join of heavyCase run for about 1.2 s.
var heavyN int
var heavyCalib string

func calibrateHeavy() int {
	if heavyN > 0 {
		return heavyN
	}
	n := 16
	c := heavyCase(n)
	c.MaxDurMs = 60000
	t0 := time.Now()
	_, _ = runC11(c)
	el := time.Since(t0)
	if el < time.Millisecond {
		el = time.Millisecond
	}
	// the body has 5 predicates: the enumerator visits n^5 index combinations
	target := 1200 * time.Millisecond
	ratio := float64(target) / float64(el)
	scale := 1.0
	for i := 0; i < 60 && scale*scale*scale*scale*scale < ratio; i++ {
		scale *= 1.03
	}
	heavyN = int(float64(n) * scale)
	// never below 30 facts (2.4e7 index combinations, > 100 ms on an idle core): a calibration
	// taken while the machine is busy must not yield a join that fits in the 20 ms limit later
	if heavyN < 30 {
		heavyN = 30
	}
	if heavyN > 70 {
		heavyN = 70
	}
	heavyCalib = fmt.Sprintf("n=16 took %v; chosen n=%d", el, heavyN)
	return heavyN
}

func heavyCase(n int) C11Case {
	c := C11Case{Class: "heavy", Entry: "world", Place: "authorizer", MaxFacts: 100000, MaxIter: 1000, RootSeed: 3}
	for i := 0; i < n; i++ {
		c.Facts = append(c.Facts, m.P("d", m.Int(int64(i))))
	}
	a, b, x, y := m.Var("a"), m.Var("b"), m.Var("x"), m.Var("y")
	// no combination matches: the last predicate asks for a fact nobody has
	c.Rules = []m.Rule{{Head: m.P("out", a), Body: []m.Pred{m.P("d", a), m.P("d", b), m.P("d", x), m.P("d", y), m.P("never", a)}}}
	return c
}

func drawC11(t *rapid.T) C11Case {
	c := C11Case{RootSeed: rapid.Uint64Range(1, 1<<16).Draw(t, "root"), MaxDurMs: 30000}
	c.Entry = rapid.SampledFrom([]string{"world", "world", "newverifier", "authorizer", "authorizerfor"}).Draw(t, "entry")
	c.Place = rapid.SampledFrom([]string{"authority", "authorizer", "block"}).Draw(t, "place")
	x, y, z := m.Var("x"), m.Var("y"), m.Var("z")
	switch cls := spreadInt(t, "class", 22); {
	case rapid.IntRange(0, 24).Draw(t, "storm") == 7:
		// many evaluations of one ladder of cheap rules under a limit of a few hundred microseconds:
		// most of them end at the deadline, somewhere between two rule applications
		c.Class = "storm"
		c.Entry = "world"
		k := rapid.IntRange(40, 90).Draw(t, "storm.k")
		c.Facts = []m.Pred{m.P("l0", m.Int(1))}
		for i := 0; i < k; i++ {
			c.Rules = append(c.Rules, m.Rule{Head: m.P(fmt.Sprintf("l%d", i+1), x), Body: []m.Pred{m.P(fmt.Sprintf("l%d", i), x)}})
		}
		// rules listed consumer-first: one ladder step per iteration
		for i, j := 0, len(c.Rules)-1; i < j; i, j = i+1, j-1 {
			c.Rules[i], c.Rules[j] = c.Rules[j], c.Rules[i]
		}
		c.MaxFacts, c.MaxIter = 100000, 100000
		c.MaxDurMs = rapid.IntRange(400, 700).Draw(t, "storm.evals") // number of evaluations of the storm
		return c
	case rapid.IntRange(0, 19).Draw(t, "heavy") == 13:
		n := calibrateHeavy()
		c2 := heavyCase(n)
		c2.Entry, c2.Place, c2.RootSeed = c.Entry, c.Place, c.RootSeed
		c2.MaxDurMs = rapid.SampledFrom([]int{1, 20}).Draw(t, "dur")
		return c2
	case cls <= 5:
		c.Class = "blowup"
		n := rapid.IntRange(2, 6).Draw(t, "n")
		for i := 0; i < n; i++ {
			c.Facts = append(c.Facts, m.P("d", m.Int(int64(i))))
		}
		if rapid.Bool().Draw(t, "cube") {
			c.Rules = []m.Rule{{Head: m.P("p", x, y, z), Body: []m.Pred{m.P("d", x), m.P("d", y), m.P("d", z)}}}
		} else {
			c.Rules = []m.Rule{{Head: m.P("p", x, y), Body: []m.Pred{m.P("d", x), m.P("d", y)}}}
		}
	case cls <= 8:
		c.Class = "chain"
		n := rapid.IntRange(2, 14).Draw(t, "n")
		for i := 0; i < n; i++ {
			c.Facts = append(c.Facts, m.P("edge", m.Int(int64(i)), m.Int(int64(i+1))))
		}
		c.Rules = []m.Rule{{Head: m.P("reach", x, y), Body: []m.Pred{m.P("edge", x, y)}},
			{Head: m.P("reach", x, z), Body: []m.Pred{m.P("reach", x, y), m.P("edge", y, z)}}}
		if rapid.Bool().Draw(t, "from0") {
			c.Rules[0] = m.Rule{Head: m.P("reach", m.Int(0), y), Body: []m.Pred{m.P("edge", m.Int(0), y)}}
		}
	case cls >= 11 && cls <= 13:
		c.Class = "unbound-head"
		k := rapid.IntRange(1, 4).Draw(t, "k")
		for i := 0; i < k; i++ {
			c.Facts = append(c.Facts, m.P("d", m.Int(int64(i))))
		}
		c.Rules = []m.Rule{{Head: m.P("p", x, m.Var("nowhere")), Body: []m.Pred{m.P("d", x)}}}
	case cls == 18 || cls >= 20:
		// a derivation ladder l0 -> l1 -> ... -> lk whose rules are listed in a drawn order
		// (consumer-first orders need one iteration per level: a premature "fixpoint reached"
		// shows as success with facts missing)
		c.Class = "layered"
		k := rapid.IntRange(3, 7).Draw(t, "depth")
		c.Facts = []m.Pred{m.P("l0", m.Int(1)), m.P("l0", m.Int(2))}
		var rules []m.Rule
		for i := 1; i <= k; i++ {
			rules = append(rules, m.Rule{Head: m.P(fmt.Sprintf("l%d", i), x), Body: []m.Pred{m.P(fmt.Sprintf("l%d", i-1), x)}})
		}
		if rapid.Bool().Draw(t, "idle") {
			rules = append(rules, m.Rule{Head: m.P("idle", x), Body: []m.Pred{m.P("nothing", x)}})
		}
		for _, j := range rapid.Permutation(seqInts(len(rules))).Draw(t, "ruleorder") {
			c.Rules = append(c.Rules, rules[j])
		}
	case cls == 9 || cls == 10 || cls == 16 || cls == 17:
		// both early-exit paths in one rule: an expression that passes on some bindings and
		// raises an error on others, with or without an unbound head variable, facts in drawn order
		c.Class = "ill-formed-mix"
		vals := rapid.SliceOfN(rapid.SampledFrom([]int64{0, 1, 2, 3, 5, 9223372036854775807}), 2, 5).Draw(t, "vals")
		seen := map[int64]bool{}
		for _, v := range vals {
			if !seen[v] {
				seen[v] = true
				c.Facts = append(c.Facts, m.P("n", m.Int(v)))
			}
		}
		exprs := []*m.Expr{
			m.Bin(">", m.Bin("/", m.V(m.Int(10)), m.V(x)), m.V(m.Int(0))),
			m.Bin(">", m.Bin("+", m.V(x), m.V(m.Int(9223372036854775807))), m.V(m.Int(0))),
			m.Bin("<", m.V(x), m.V(m.Int(3))),
			m.Bin("==", m.Bin("*", m.V(x), m.V(m.Int(4611686018427387904))), m.V(m.Int(0))),
		}
		r := m.Rule{Head: m.P("bad", x), Body: []m.Pred{m.P("n", x)}}
		if rapid.Bool().Draw(t, "unboundhead") {
			r.Head = m.P("bad", x, m.Var("missing"))
		}
		ne := rapid.IntRange(1, 2).Draw(t, "nexprs")
		for i := 0; i < ne; i++ {
			r.Exprs = append(r.Exprs, rapid.SampledFrom(exprs).Draw(t, "expr"))
		}
		if rapid.Bool().Draw(t, "join") {
			r.Body = append(r.Body, m.P("n", y))
		}
		if rapid.IntRange(0, 2).Draw(t, "directed") == 0 {
			// the sharpest order: a binding on which the expression holds (so a result is handed over
			// and, the head being unbound, the rule is abandoned) followed by one on which it fails
			c.Facts = []m.Pred{m.P("n", m.Int(int64(rapid.IntRange(1, 9).Draw(t, "first")))), m.P("n", m.Int(0))}
			for i := rapid.IntRange(0, 2).Draw(t, "more"); i > 0; i-- {
				c.Facts = append(c.Facts, m.P("n", m.Int(int64(10+i))))
			}
			r = m.Rule{Head: m.P("bad", x, m.Var("missing")), Body: []m.Pred{m.P("n", x)}, Exprs: []*m.Expr{exprs[0]}}
		}
		c.Rules = []m.Rule{r}
	case cls <= 15:
		c.Class = "expr-error"
		k := rapid.IntRange(1, 4).Draw(t, "k")
		for i := 0; i < k; i++ {
			c.Facts = append(c.Facts, m.P("d", m.Int(int64(i))))
		}
		c.Rules = []m.Rule{{Head: m.P("p", x), Body: []m.Pred{m.P("d", x)}, Exprs: []*m.Expr{gen.UniformFail(t)}}}
	default:
		c.Class = "small"
		p := gen.SmallProfile
		p.SmallInts = []int64{0, 1, 2, 3}
		s := gen.DrawSchema(t, p, 1, 3)
		c.Facts = s.DrawFacts(t, 1, 8)
		rules := s.DrawRules(t, 1, 3, gen.RuleCfg{MaxBody: 3, MaxExprs: 1, ExprDepth: 2})
		for {
			r := ref.LFP(c.Facts, rules)
			if (r.Facts.Len() <= 40 && !r.Diverged) || len(rules) == 0 {
				break
			}
			rules = rules[:len(rules)-1]
		}
		c.Rules = rules
	}
	// limits around the reference numbers
	want := ref.LFP(c.Facts, c.Rules)
	size, rounds := want.Facts.Len(), want.Rounds
	switch rapid.IntRange(0, 3).Draw(t, "limits") {
	case 0: // generous
		c.MaxFacts, c.MaxIter = size+rapid.IntRange(2, 50).Draw(t, "fslack"), rounds+rapid.IntRange(2, 20).Draw(t, "islack")
	case 1: // fact limit below the fixpoint
		c.MaxFacts, c.MaxIter = max(1, size-rapid.IntRange(1, max(1, size/2)).Draw(t, "fcut")), rounds+rapid.IntRange(2, 20).Draw(t, "islack")
	case 2: // iteration limit below what is needed
		c.MaxFacts, c.MaxIter = size+rapid.IntRange(2, 50).Draw(t, "fslack"), max(1, rounds-rapid.IntRange(1, max(1, rounds)).Draw(t, "icut"))
	default:
		c.MaxFacts, c.MaxIter = rapid.IntRange(1, size+5).Draw(t, "f"), rapid.IntRange(1, rounds+4).Draw(t, "i")
	}
	return c
}

func TestC11(t *testing.T) {
	rec := obs.New("C11")
	defer rec.Flush(true)
	rec.SetExtra("rule", "rapid program classes with reference size and round numbers: small typed programs; blow-up (cross products, transitive closure over a chain up to 14); heavy joins (a 5-predicate body over a calibrated number of facts with no match, about 1.5 s in full) under 1 ms / 20 ms; ill-formed rules (unbound head variable with 1-4 matching bindings; expression error; a rule that mixes both, with expressions that pass on some bindings and raise division-by-zero / overflow errors on others, facts in drawn order); derivation ladders l0->l1->...->lk (k 3-7) with their rules in a drawn order; storms (400-700 evaluations of a ladder of 40-90 cheap rules under 100-300 microseconds: an error, or the whole ladder); limit configurations drawn around the reference numbers (generous / fact limit below the fixpoint / iteration limit below the need / arbitrary); delivered through datalog.NewWorld, NewVerifier, Authorizer(root, opts...), AuthorizerFor(src, opts...), with the program in the authority block, the authorizer or a later block, evaluated by Authorize or (program in the authorizer, half of the cases) by Query, after which the whole model is read back with one query per predicate and compared with the reference fixpoint; in a third of the token-level cases the authorizer is used and Reset before the content is added (limits must survive Reset). Oracle: Run==nil implies facts == reference fixpoint and no limit exceeded; after an error, a second Query on the same authorizer with nothing added returns the error again or succeeds over exactly the reference fixpoint; fixpoint larger than maxFacts / needing >= maxIterations+2 rounds implies the matching sentinel (errors.Is); heavy program under a tiny duration implies the timeout sentinel; a program clearly within all limits gets no limit error; Authorize fails with the sentinel through every entry point; after return, no goroutine with a datalog frame stays parked in a channel send while no datalog goroutine can run (3 equal samples). Non-trivial = a limit is exceeded, or an early-exit path is taken, or options travel through a token-level entry point; distinct by case.")
	rec.SetExtra("assumptions", []string{"the exact boundary (==) of the limits is not asserted", "liveness ('never blocked forever') is decided through the safety proxy of a quiescent parked sender", "a single late return is inconclusive; three in a row are a violation"})
	harness.RunWith(t, harness.Spec[C11Case]{ID: "C11", Draw: drawC11, Check: checkC11}, rec)
}
