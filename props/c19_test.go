package props

import (
	"bufio"
	"encoding/hex"
	"encoding/json"
	"fmt"
	"os"
	"runtime"
	"strings"
	"sync"
	"testing"
	"time"

	biscuit "github.com/biscuit-auth/biscuit-go/v2"
	"github.com/biscuit-auth/biscuit-go/v2/parser"
	"pgregory.net/rapid"

	"verif/internal/bridge"
	"verif/internal/gen"
	"verif/internal/harness"
	m "verif/internal/model"
	"verif/internal/obs"
)

// C19 — a token can be shared by concurrent goroutines.

type C19Op struct {
	Op      string `json:"op"`
	Arg     int    `json:"arg"`
	Gosched bool   `json:"gosched,omitempty"`
}

type C19Case struct {
	Spec    TokSpec   `json:"spec"`
	Authz   m.Authz   `json:"authz"`
	Query   m.Rule    `json:"query"`
	Extra   m.Block   `json:"extra"`
	Scripts [][]C19Op `json:"scripts"`
	Procs   int       `json:"procs"`
	Reps    int       `json:"reps"`
	Reload  bool      `json:"reload"`
}

var c19Ops = []string{"authorize", "authorize", "authorize-failing", "query", "string", "code", "getblockid", "createblock", "append", "seal", "serialize", "revocation",
	"parse-fact", "parse-rule", "parse-check", "parse-invalid", "verify"}

var c19Texts = struct{ facts, rules, checks []string }{
	facts:  []string{`right("file1", "read")`, `user(42)`, `resource("a", [1, 2, 3], hex:00ff, true)`, `time(2023-01-02T03:04:05Z)`},
	rules:  []string{`right($f, "read") <- resource($f), owner($u, $f), $u == "alice"`, `ok($x) <- n($x), $x * 2 + 1 > 3 && !($x == 7)`},
	checks: []string{`check if resource($r), $r.starts_with("/a") or admin(true)`, `check if time($t), $t <= 2030-01-01T00:00:00Z`},
}

// shared holds everything the goroutines share.
type c19Shared struct {
	tok     *biscuit.Biscuit
	ser     []byte
	pub     []byte
	facts   []biscuit.Fact
	rules   []biscuit.Rule
	checks  []biscuit.Check
	pols    []biscuit.Policy
	opt     biscuit.AuthorizerOption
	pa      biscuit.ParsedAuthorizer
	lastPol *biscuit.Policy
	query   biscuit.Rule
	extra   m.Block
	p       parser.Parser
	idFacts []biscuit.Fact
}

// runOp executes one operation and returns a canonical result string.
func (s *c19Shared) runOp(tok *biscuit.Biscuit, g, i int, op C19Op) string {
	if op.Gosched {
		runtime.Gosched()
	}
	pub := s.pub
	newAuth := func() (biscuit.Authorizer, error) {
		a, err := tok.AuthorizerFor(biscuit.WithSingularRootPublicKey(pub), s.opt)
		if err != nil {
			return nil, err
		}
		if (g+i)%2 == 0 {
			// the shared content as one parsed value, then this request's own last policy
			a.AddAuthorizer(s.pa)
			if s.lastPol != nil {
				a.AddPolicy(*s.lastPol)
			}
			return a, nil
		}
		for _, f := range s.facts {
			a.AddFact(f)
		}
		for _, r := range s.rules {
			a.AddRule(r)
		}
		for _, c := range s.checks {
			a.AddCheck(c)
		}
		for _, p := range s.pols {
			a.AddPolicy(p)
		}
		return a, nil
	}
	rng := bridge.NewDetRand(uint64(g*1000 + i + 1))
	switch op.Op {
	case "verify":
		_, err := tok.AuthorizerFor(biscuit.WithSingularRootPublicKey(pub))
		return fmt.Sprint("verify:", err)
	case "authorize":
		a, err := newAuth()
		if err != nil {
			return "authorize: verify error " + err.Error()
		}
		return "authorize:" + bridge.Classify(a.Authorize()).String()
	case "authorize-failing":
		// a request whose evaluation stops half-way through a compound expression (division by zero
		// after operands were pushed): its failure is its own, the others' results are theirs
		a, err := newAuth()
		if err != nil {
			return "authorize-failing: verify error " + err.Error()
		}
		a.AddCheck(bridge.ToCheck(m.Check{Queries: []m.Rule{{Head: m.Pred{Name: "query"}, Exprs: []*m.Expr{
			m.Bin("&&", m.Bin(">=", m.V(m.Int(int64(g))), m.V(m.Int(0))), m.Bin("<", m.Bin("/", m.V(m.Int(int64(i+1))), m.V(m.Int(0))), m.V(m.Int(50))))}}}}))
		return "authorize-failing:" + bridge.Classify(a.Authorize()).String()
	case "query":
		a, err := newAuth()
		if err != nil {
			return "query: verify error " + err.Error()
		}
		fs, err := a.Query(s.query)
		if err != nil {
			return "query: error"
		}
		ps, err := bridge.LiftFactSet(fs)
		if err != nil {
			return "query: lift " + err.Error()
		}
		return "query:" + m.FactSetKey(ps)
	case "string":
		return "string:" + tok.String()
	case "code":
		return "code:" + strings.Join(tok.Code(), "|")
	case "getblockid":
		// a fact with a symbol the token has never seen, then one it may hold
		_, err1 := tok.GetBlockID(bridge.ToFact(m.P(fmt.Sprintf("fresh_%d_%d", g, i), m.Str(fmt.Sprintf("sym_%d_%d", g, i)))))
		id, err2 := tok.GetBlockID(s.idFacts[op.Arg%len(s.idFacts)])
		return fmt.Sprintf("getblockid:%v/%d/%v", err1, id, err2)
	case "createblock", "append":
		bb := tok.CreateBlock()
		_ = bb.AddFact(bridge.ToFact(m.P(fmt.Sprintf("added_%d_%d", g, i), m.Str(fmt.Sprintf("val_%d_%d", g, i)), m.Int(int64(op.Arg)))))
		if err := bridge.AddBlockTo(bb, s.extra); err != nil {
			return "createblock: " + err.Error()
		}
		blk := bb.Build()
		if op.Op == "createblock" {
			return "createblock:ok"
		}
		nt, err := tok.Append(rng, blk)
		if err != nil {
			return "append: " + err.Error()
		}
		ser, err := nt.Serialize()
		if err != nil {
			return "append: serialize " + err.Error()
		}
		_, verr := nt.AuthorizerFor(biscuit.WithSingularRootPublicKey(pub))
		return fmt.Sprintf("append:%s|%v|%s", hex.EncodeToString(ser), verr, nt.String())
	case "seal":
		nt, err := tok.Seal(rng)
		if err != nil {
			return "seal: " + err.Error()
		}
		ser, _ := nt.Serialize()
		_, verr := nt.AuthorizerFor(biscuit.WithSingularRootPublicKey(pub))
		return fmt.Sprintf("seal:%s|%v", hex.EncodeToString(ser), verr)
	case "serialize":
		ser, err := tok.Serialize()
		return fmt.Sprintf("serialize:%s|%v", hex.EncodeToString(ser), err)
	case "revocation":
		var parts []string
		for _, r := range tok.RevocationIds() {
			parts = append(parts, hex.EncodeToString(r))
		}
		return "revocation:" + strings.Join(parts, ",")
	case "parse-fact":
		f, err := s.p.Fact(c19Texts.facts[op.Arg%len(c19Texts.facts)], nil)
		return fmt.Sprintf("parse-fact:%v|%v", f, err)
	case "parse-rule":
		r, err := s.p.Rule(c19Texts.rules[op.Arg%len(c19Texts.rules)], nil)
		return fmt.Sprintf("parse-rule:%v|%v", r, err)
	case "parse-check":
		c, err := s.p.Check(c19Texts.checks[op.Arg%len(c19Texts.checks)], nil)
		return fmt.Sprintf("parse-check:%v|%v", c, err)
	case "parse-invalid":
		// a text the parser must refuse (unbound parameter, malformed literal, variable in a set inside
		// an expression): its error is its own, the other goroutines' texts are parsed as if alone
		bad := []string{`check if resource($r), $r == {nobody_bound_this}`, `check if time($t), $t <= 2030-13-01T00:00:00Z`, `check if user($u), [$u].contains(1)`, `h($x) <- q($x), $x == hex:abc`}
		c, err := s.p.Check(bad[op.Arg%3], nil)
		if op.Arg%4 == 3 {
			r, err2 := s.p.Rule(bad[3], nil)
			return fmt.Sprintf("parse-invalid:%v|%v", r, err2 != nil)
		}
		return fmt.Sprintf("parse-invalid:%v|%v", c, err != nil)
	}
	return "?"
}

func c19Setup(c C19Case) (*c19Shared, error) {
	tok, _, pub, err := c.Spec.build()
	if err != nil {
		return nil, err
	}
	ser, err := tok.Serialize()
	if err != nil {
		return nil, err
	}
	if c.Reload {
		if tok, err = biscuit.Unmarshal(ser); err != nil {
			return nil, err
		}
	}
	s := &c19Shared{tok: tok, ser: ser, pub: pub, extra: c.Extra, p: parser.New(), query: bridge.ToRule(c.Query)}
	for _, f := range c.Authz.Facts {
		s.facts = append(s.facts, bridge.ToFact(f))
	}
	for _, r := range c.Authz.Rules {
		s.rules = append(s.rules, bridge.ToRule(r))
	}
	for _, ch := range c.Authz.Checks {
		s.checks = append(s.checks, bridge.ToCheck(ch))
	}
	for _, p := range c.Authz.Policies {
		s.pols = append(s.pols, bridge.ToPolicy(p))
	}
	// one option value and one parsed authorizer value, kept by the service and handed to every
	// authorizer it creates; the parsed policy list has spare capacity, as slices grown by append do
	s.opt = bridge.WorldOpts()
	s.pa = biscuit.ParsedAuthorizer{Block: biscuit.ParsedBlock{Facts: s.facts, Rules: s.rules, Checks: s.checks}}
	if n := len(s.pols); n > 0 {
		s.pa.Policies = append(make([]biscuit.Policy, 0, n+3), s.pols[:n-1]...)
		s.lastPol = &s.pols[n-1]
	}
	s.idFacts = []biscuit.Fact{bridge.ToFact(m.P("nobody_has_this", m.Int(1)))}
	for _, b := range c.Spec.Blocks {
		for _, f := range b.Facts {
			s.idFacts = append(s.idFacts, bridge.ToFact(f))
		}
	}
	return s, nil
}

// c19Run executes the case: solo results first (each script alone on a private
// copy of the token), then the scripts concurrently on the shared token, Reps times.
func c19Run(c C19Case) string {
	s, err := c19Setup(c)
	if err != nil {
		return "setup: " + err.Error()
	}
	solo := make([][]string, len(c.Scripts))
	for g, script := range c.Scripts {
		private, err := biscuit.Unmarshal(s.ser)
		if err != nil {
			return "setup: " + err.Error()
		}
		if !c.Reload {
			private, _, _, err = c.Spec.build()
			if err != nil {
				return "setup: " + err.Error()
			}
		}
		for i, op := range script {
			solo[g] = append(solo[g], s.runOp(private, g, i, op))
		}
	}
	procs := c.Procs
	if procs < 1 {
		procs = 4
	}
	old := runtime.GOMAXPROCS(procs)
	defer runtime.GOMAXPROCS(old)
	for rep := 0; rep < c.Reps; rep++ {
		results := make([][]string, len(c.Scripts))
		start := make(chan struct{})
		var wg sync.WaitGroup
		for g, script := range c.Scripts {
			wg.Add(1)
			go func(g int, script []C19Op) {
				defer wg.Done()
				<-start
				for i, op := range script {
					results[g] = append(results[g], s.runOp(s.tok, g, i, op))
				}
			}(g, script)
		}
		close(start)
		wg.Wait()
		for g := range c.Scripts {
			for i := range c.Scripts[g] {
				if results[g][i] != solo[g][i] {
					a, b := results[g][i], solo[g][i]
					if len(a) > 400 {
						a = a[:400] + "..."
					}
					if len(b) > 400 {
						b = b[:400] + "..."
					}
					return fmt.Sprintf("mismatch: repetition %d, goroutine %d, operation %d (%s): running concurrently it obtained\n  %s\nrunning alone it obtains\n  %s", rep, g, i, c.Scripts[g][i].Op, a, b)
				}
			}
		}
	}
	return "ok"
}

func init() {
	workers["c19"] = func() int {
		out := os.NewFile(3, "replies")
		if out == nil {
			return 65
		}
		w := bufio.NewWriter(out)
		sc := bufio.NewScanner(os.Stdin)
		sc.Buffer(make([]byte, 1<<20), 64<<20)
		for sc.Scan() {
			var c C19Case
			if err := json.Unmarshal(sc.Bytes(), &c); err != nil {
				fmt.Fprintf(w, "setup: bad case\n")
				w.Flush()
				continue
			}
			res := func() (r string) {
				defer func() {
					if p := recover(); p != nil {
						r = fmt.Sprintf("panic: %v", p)
					}
				}()
				return c19Run(c)
			}()
			w.WriteString(strings.ReplaceAll(res, "\n", "\\n"))
			w.WriteByte('\n')
			w.Flush()
		}
		return 0
	}
}

var c19W *c10Worker
var c19Log string

func checkC19(c C19Case, rec *obs.Recorder) *obs.Violation {
	if c19W == nil {
		f, err := os.CreateTemp("", "c19-worker-*.log")
		if err == nil {
			c19Log = f.Name()
			f.Close()
		}
		os.Setenv("VERIF_WORKER_LOG", c19Log)
		os.Setenv("GORACE", "halt_on_error=1 exitcode=66")
		w, err := startWorker("c19")
		if err != nil {
			panic("cannot start worker: " + err.Error())
		}
		c19W = w
	}
	payload, _ := json.Marshal(c)
	line, died, timedOut := c19W.call(payload, 120*time.Second)
	derives, reads := false, false
	for _, sc := range c.Scripts {
		for _, op := range sc {
			switch op.Op {
			case "append", "seal", "createblock", "getblockid":
				derives = true
			case "authorize", "authorize-failing", "query", "string", "code", "verify", "serialize":
				reads = true
			}
		}
	}
	rec.Label(fmt.Sprintf("goroutines:%d", len(c.Scripts)))
	if len(c.Scripts) >= 2 && derives && reads {
		if rec.NonTrivial(fmt.Sprint(c.Scripts, c.Spec.RootSeed, c.Procs)) {
			rec.Sample(map[string]any{"scripts": c.Scripts, "gomaxprocs": c.Procs, "repetitions": c.Reps, "token_blocks": len(c.Spec.Blocks), "reloaded": c.Reload})
		}
	}
	if timedOut {
		c19W.stop()
		c19W = nil
		rec.Label("worker-timeout(inconclusive)")
		return nil
	}
	if died {
		c19W.stop()
		c19W = nil
		report := ""
		if b, err := os.ReadFile(c19Log); err == nil {
			report = string(b)
			_ = os.Truncate(c19Log, 0)
		}
		if i := strings.Index(report, "WARNING: DATA RACE"); i >= 0 {
			report = report[i:]
			if len(report) > 2500 {
				report = report[:2500]
			}
			return obs.ViolK("race", "data race while %d goroutines share one token (scripts %v):\n%s", len(c.Scripts), c.Scripts, report)
		}
		if len(report) > 1500 {
			report = report[len(report)-1500:]
		}
		return obs.ViolK("death", "the worker died while %d goroutines shared one token (scripts %v): %s", len(c.Scripts), c.Scripts, report)
	}
	line = strings.TrimSpace(strings.ReplaceAll(line, "\\n", "\n"))
	switch {
	case line == "ok":
		return nil
	case strings.HasPrefix(line, "setup:"):
		return obs.Violf("harness: %s", line)
	default:
		return obs.ViolK("result", "scripts %v: %s", c.Scripts, line)
	}
}

func drawC19(t *rapid.T) C19Case {
	s := gen.DrawSchema(t, gen.SmallProfile, 2, 4)
	c := C19Case{Spec: drawTokSpec(t, s, 2), Reload: rapid.Bool().Draw(t, "reload")}
	c.Spec.Sealed = false
	// chains of different lengths: shared slices have spare capacity only at some lengths
	for i := rapid.SampledFrom([]int{0, 0, 1, 2, 3, 3, 4, 5}).Draw(t, "moreblocks"); i > 0; i-- {
		c.Spec.Blocks = append(c.Spec.Blocks, drawSimpleBlock(t, s))
	}
	// tables with spare capacity: 2-5 symbols in the authority block
	for i := 0; i < rapid.IntRange(2, 5).Draw(t, "nsym"); i++ {
		c.Spec.Blocks[0].Facts = append(c.Spec.Blocks[0].Facts, m.P("cap", m.Str(fmt.Sprintf("spare%d", i))))
	}
	c.Spec.Blocks[0].Facts = bridge.DedupFacts(c.Spec.Blocks[0].Facts)
	tok := m.Token{Blocks: c.Spec.Blocks}
	c.Authz = s.DrawAuthz(t, tok, gen.DefaultProg)
	c.Query = s.DrawPanelQuery(t, gen.AuthClosure(tok, c.Authz))
	c.Extra = drawSimpleBlock(t, s)
	c.Extra.Checks = nil
	ng := rapid.IntRange(2, 8).Draw(t, "goroutines")
	for g := 0; g < ng; g++ {
		n := rapid.IntRange(3, 15).Draw(t, "ops")
		var script []C19Op
		for i := 0; i < n; i++ {
			script = append(script, C19Op{Op: rapid.SampledFrom(c19Ops).Draw(t, "op"), Arg: rapid.IntRange(0, 7).Draw(t, "arg"), Gosched: rapid.IntRange(0, 3).Draw(t, "gosched") == 0})
		}
		c.Scripts = append(c.Scripts, script)
	}
	c.Procs = rapid.SampledFrom([]int{2, 4, 16}).Draw(t, "procs")
	c.Reps = 20
	return c
}

func TestC19(t *testing.T) {
	rec := obs.New("C19")
	defer rec.Flush(true)
	defer func() {
		c19W.stop()
		if c19Log != "" {
			os.Remove(c19Log)
		}
	}()
	rec.SetExtra("rule", "rapid sets of 2-8 goroutine scripts of 3-15 operations over one shared token (1-8 blocks, built or reloaded from bytes, authority table with spare capacity), shared biscuit.Fact / Rule / Check / Policy values, one shared AuthorizerOption value, one shared ParsedAuthorizer value (handed to half of the authorizers through AddAuthorizer, followed by their own AddPolicy) and one shared parser.Parser: AuthorizerFor + shared content + Authorize, the same with a check whose evaluation fails half-way through a compound expression, Query, signature verification alone, String, Code, GetBlockID with a fresh symbol, CreateBlock+add+Build, Append, Seal, Serialize, RevocationIds, parser.Fact / Rule / Check; start barrier, GOMAXPROCS in {2,4,16}, drawn Gosched points; every script set runs 20 times. Executed in a worker built with -race (GORACE=halt_on_error=1 exitcode=66). Oracle: no race report, and every operation's canonical result equals the result of the same script run alone on a private copy of the token (derivations use per-operation deterministic random streams). Non-trivial = at least two goroutines, one deriving (append / seal / create block / fact lookup) while another verifies, authorizes, queries, prints or serializes; distinct by (scripts, token, GOMAXPROCS).")
	rec.SetExtra("assumptions", []string{"the harness does not own the scheduler: the race detector reports unsynchronised access pairs whatever the timing, wrong results without a data race are only sampled", "a worker that exceeds 120 s is inconclusive"})
	harness.RunWith(t, harness.Spec[C19Case]{ID: "C19", Draw: drawC19, Check: checkC19}, rec)
}
