package props

import (
	"fmt"
	"testing"

	"pgregory.net/rapid"

	"verif/internal/bridge"
	"verif/internal/gen"
	"verif/internal/harness"
	m "verif/internal/model"
	"verif/internal/obs"
	"verif/internal/ref"
)

// C03 — block scoping: a later block's facts and rules reach only its own checks.

type C03Case struct {
	Token    m.Token  `json:"token"`
	Authz    m.Authz  `json:"authz"`
	F        m.Block  `json:"f"`   // check-free block
	Pos      int      `json:"pos"` // where F is inserted among the later blocks
	Perm     []int    `json:"perm"`
	Queries  []m.Rule `json:"queries"`
	RootSeed uint64   `json:"root_seed"`
	Reload   bool     `json:"reload"`
}

type c03Obs struct {
	class  string
	failed int
	pre    []string // query answers of an authorizer that was not authorized
	post   []string // query answers after Authorize
}

func observeC03(tok m.Token, c C03Case) (c03Obs, error) {
	var o c03Obs
	b, pub, err := mkToken(tok, c.RootSeed, c.Reload)
	if err != nil {
		return o, err
	}
	out, post, err := authorizeOnce(b, pub, c.Authz, c.Queries)
	if err != nil {
		return o, err
	}
	o.class, o.failed, o.post = out.Class, out.FailedChecks, post
	// a second authorizer, queried without Authorize
	a, err := newAuthz(b, pub, c.Authz)
	if err != nil {
		return o, err
	}
	for _, q := range c.Queries {
		o.pre = append(o.pre, queryKey(a, q))
	}
	return o, nil
}

func (a c03Obs) diff(b c03Obs) string {
	if a.class != b.class {
		return fmt.Sprintf("outcome %s vs %s", a.class, b.class)
	}
	if a.failed != b.failed {
		return fmt.Sprintf("%d vs %d failed checks", a.failed, b.failed)
	}
	for i := range a.post {
		if a.post[i] != b.post[i] {
			return fmt.Sprintf("query %d after Authorize: {%s} vs {%s}", i, a.post[i], b.post[i])
		}
	}
	for i := range a.pre {
		if a.pre[i] != b.pre[i] {
			return fmt.Sprintf("query %d without Authorize: {%s} vs {%s}", i, a.pre[i], b.pre[i])
		}
	}
	return ""
}

func checkC03(c C03Case, rec *obs.Recorder) *obs.Violation {
	want := ref.Authorize(c.Token, c.Authz)
	if want.Ambiguous || want.Diverged {
		rec.OutOfFragment()
		return nil
	}
	desc := scenarioText(c.Token, c.Authz)
	base, err := observeC03(c.Token, c)
	if err != nil {
		return obs.Violf("%s: %v", desc, err)
	}
	if !want.Is(base.class) {
		return obs.Violf("%s: expected %v, got %s", desc, want.Classes, base.class)
	}
	// queries see the authority-level closure only
	if want.AuthFacts != nil && (base.class != ref.Error) {
		af := want.AuthFacts.List()
		for i, q := range c.Queries {
			a := ref.Query(q, af)
			if a.Ambiguous() || a.Invalid {
				continue
			}
			if k := m.FactSetKey(a.Facts); k != base.post[i] {
				return obs.Violf("%s: query %s after Authorize: expected {%s} (authority-level closure), got {%s}", desc, q.Text(), k, base.post[i])
			}
		}
	}

	later := c.Token.Blocks[1:]
	// (i) a check-free block inserted at any position changes nothing
	pos := c.Pos % (len(later) + 1)
	withF := m.Token{Blocks: []m.Block{c.Token.Blocks[0]}}
	withF.Blocks = append(withF.Blocks, later[:pos]...)
	withF.Blocks = append(withF.Blocks, c.F)
	withF.Blocks = append(withF.Blocks, later[pos:]...)
	fv := ref.Authorize(withF, c.Authz)
	if !fv.Ambiguous && !fv.Diverged && !fv.Is(ref.Error) {
		got, err := observeC03(withF, c)
		if err != nil {
			return obs.Violf("%s with check-free block {%s} at %d: %v", desc, c.F.Text(), pos+1, err)
		}
		if d := base.diff(got); d != "" {
			return obs.Violf("%s: inserting the check-free block {%s} at position %d changes the result: %s", desc, c.F.Text(), pos+1, d)
		}
	} else {
		rec.Label("F-out-of-fragment")
	}
	// (ii) the order of later blocks is irrelevant
	permuted := false
	if len(c.Perm) == len(later) && len(later) >= 2 {
		pt := m.Token{Blocks: []m.Block{c.Token.Blocks[0]}}
		for i, j := range c.Perm {
			pt.Blocks = append(pt.Blocks, later[j])
			if i != j {
				permuted = true
			}
		}
		got, err := observeC03(pt, c)
		if err != nil {
			return obs.Violf("%s with later blocks in order %v: %v", desc, c.Perm, err)
		}
		if d := base.diff(got); d != "" && !(want.Is(ref.Error)) {
			return obs.Violf("%s: later blocks in order %v give a different result: %s", desc, c.Perm, d)
		}
	}

	// (v) a later block whose own evaluation fails (its rule divides by zero on a matching binding):
	// authorization fails, and what the authorizer answers afterwards is still the authority-level
	// closure only -- the failing block's facts and rules are not left behind
	if base.class != ref.Error && len(c.Queries) > 0 {
		boom := m.Block{Facts: append(append([]m.Pred{}, c.F.Facts...), m.P("c03_boom_src", m.Int(1)))}
		boom.Rules = append(append([]m.Rule{}, c.F.Rules...), m.Rule{Head: m.P("c03_boom", m.Var("x")), Body: []m.Pred{m.P("c03_boom_src", m.Var("x"))},
			Exprs: []*m.Expr{m.Bin("==", m.Bin("/", m.V(m.Var("x")), m.V(m.Int(0))), m.V(m.Int(1)))}})
		boom.Facts = bridge.DedupFacts(boom.Facts)
		bpos := (c.Pos / 2) % (len(later) + 1)
		withBoom := m.Token{Blocks: []m.Block{c.Token.Blocks[0]}}
		withBoom.Blocks = append(withBoom.Blocks, later[:bpos]...)
		withBoom.Blocks = append(withBoom.Blocks, boom)
		withBoom.Blocks = append(withBoom.Blocks, later[bpos:]...)
		bv := ref.Authorize(withBoom, c.Authz)
		if !bv.Ambiguous && !bv.Diverged {
			got, err := observeC03(withBoom, c)
			if err != nil {
				return obs.Violf("%s with failing block {%s} at %d: %v", desc, boom.Text(), bpos+1, err)
			}
			if !bv.Is(got.class) {
				return obs.Violf("%s with failing block {%s} at %d: expected %v, got %s", desc, boom.Text(), bpos+1, bv.Classes, got.class)
			}
			for i := range base.post {
				if got.post[i] != base.post[i] {
					return obs.ViolK("after-failed-block", "%s: with the failing block {%s} at position %d, query %s after Authorize answers {%s}; without that block it answers {%s}", desc, boom.Text(), bpos+1, c.Queries[i].Text(), got.post[i], base.post[i])
				}
				if got.pre[i] != base.pre[i] {
					return obs.ViolK("after-failed-block", "%s: with the failing block {%s} at position %d, query %s without Authorize answers {%s}; without that block it answers {%s}", desc, boom.Text(), bpos+1, c.Queries[i].Text(), got.pre[i], base.pre[i])
				}
			}
			rec.Label("failing-block:" + got.class)
		}
	}

	// non-trivial: the wrong "global facts" model would answer differently
	g := m.Token{Blocks: append([]m.Block{}, c.Token.Blocks...)}
	a0 := g.Blocks[0]
	for _, b := range append([]m.Block{c.F}, later...) {
		a0.Facts = append(append([]m.Pred{}, a0.Facts...), b.Facts...)
		a0.Rules = append(append([]m.Rule{}, a0.Rules...), b.Rules...)
	}
	g.Blocks[0] = a0
	gv := ref.Authorize(g, c.Authz)
	leakVisible := false
	if !gv.Ambiguous && !gv.Diverged && gv.AuthFacts != nil && want.AuthFacts != nil {
		if gv.Single() != want.Single() || gv.FailedChecks != want.FailedChecks {
			leakVisible = true
		}
		for _, q := range c.Queries {
			if m.FactSetKey(ref.Query(q, gv.AuthFacts.List()).Facts) != m.FactSetKey(ref.Query(q, want.AuthFacts.List()).Facts) {
				leakVisible = true
			}
		}
	}
	derivedSupport := false
	if want.AuthFacts != nil {
		// (iii) a block check whose only support is a fact derived at authority level
		inputs := ref.NewFactSet(append(append([]m.Pred{}, c.Authz.Facts...), c.Token.Blocks[0].Facts...)...)
		if want.AuthFacts.Len() > inputs.Len() && len(later) > 0 && want.FailedChecks == 0 {
			for _, b := range later {
				for _, ch := range b.Checks {
					okWithout := false
					for _, q := range ch.Queries {
						if len(ref.Query(q, append(inputs.List(), b.Facts...)).Facts) > 0 {
							okWithout = true
						}
					}
					if !okWithout && len(ch.Queries) > 0 {
						derivedSupport = true
					}
				}
			}
		}
	}
	for l, on := range map[string]bool{"leak-would-be-visible": leakVisible, "block-check-needs-derived-authority-fact": derivedSupport, "permuted": permuted} {
		if on {
			rec.Label(l)
		}
	}
	rec.Label("verdict:" + base.class)
	if (leakVisible || derivedSupport) && rec.NonTrivial(c.Token.Key()+c.Authz.Key()+c.F.Key()+fmt.Sprint(pos, c.Perm)) {
		rec.Sample(map[string]any{"scenario": desc, "check_free_block": c.F.Text(), "position": pos + 1, "order": c.Perm, "verdict": base.class})
	}
	return nil
}

func drawC03(t *rapid.T) C03Case {
	cfg := gen.DefaultProg
	cfg.MinBlocks, cfg.MaxBlocks = 1, 3
	cfg.PCheckSat = 70
	sc := gen.DrawScenario(t, cfg, gen.SmallProfile)
	c := C03Case{Token: sc.Token, Authz: sc.Authz, RootSeed: rapid.Uint64Range(1, 1<<20).Draw(t, "root"), Reload: rapid.Bool().Draw(t, "reload")}
	// (iii) a later block's check supported only by a fact that authority-level rules derive
	if rapid.IntRange(0, 2).Draw(t, "derived-support") == 2 {
		closure := gen.AuthClosure(sc.Token, sc.Authz)
		inputs := map[string]bool{}
		for _, f := range append(append([]m.Pred{}, sc.Authz.Facts...), sc.Token.Blocks[0].Facts...) {
			inputs[f.Key()] = true
		}
		var derived []m.Pred
		for _, f := range closure {
			if !inputs[f.Key()] {
				derived = append(derived, f)
			}
		}
		if len(derived) > 0 {
			k := 1 + rapid.IntRange(0, len(sc.Token.Blocks)-2).Draw(t, "derived-block")
			q := sc.Schema.DrawQuery(t, derived, true, gen.QueryHead)
			sc.Token.Blocks[k].Checks = append(sc.Token.Blocks[k].Checks, m.Check{Queries: []m.Rule{q}})
			c.Token = sc.Token
		}
	}
	// a later block computes with a value it shares with an authority-level fact (a set): whatever
	// it does with it, the fact itself must stay what it was for later blocks and for queries
	var sharedQuery *m.Rule
	if rapid.IntRange(0, 4).Draw(t, "shared-set") == 4 {
		n := rapid.IntRange(3, 5).Draw(t, "set-n")
		var elems, keep []m.Term
		for i := 0; i < n; i++ {
			e := m.Int(int64(i + 1))
			if rapid.Bool().Draw(t, "set-str") {
				e = m.Int(int64(10 * (i + 1)))
			}
			elems = append(elems, e)
			if i > 0 && (i == n-1 || rapid.Bool().Draw(t, "set-keep")) {
				keep = append(keep, e)
			}
		}
		set := m.Term{K: m.KSet, Set: m.CanonSet(elems)}
		other := m.Term{K: m.KSet, Set: m.CanonSet(keep)}
		fact := m.P("tags", set)
		if rapid.Bool().Draw(t, "set-in-authz") {
			sc.Authz.Facts = append(sc.Authz.Facts, fact)
		} else {
			sc.Token.Blocks[0].Facts = append(sc.Token.Blocks[0].Facts, fact)
		}
		s := m.Var("s")
		op := rapid.SampledFrom([]string{"intersection", "union", "contains"}).Draw(t, "set-op")
		var e *m.Expr
		if op == "contains" {
			e = m.Bin("contains", m.V(s), m.V(other))
		} else {
			e = m.Bin("==", m.Un("length", m.Bin(op, m.V(s), m.V(other))), m.V(m.Int(int64(len(other.Set)))))
		}
		k := 1 + rapid.IntRange(0, len(sc.Token.Blocks)-2).Draw(t, "set-block")
		if rapid.Bool().Draw(t, "set-as-rule") {
			sc.Token.Blocks[k].Rules = append(sc.Token.Blocks[k].Rules, m.Rule{Head: m.P("narrowed", s), Body: []m.Pred{m.P("tags", s)}, Exprs: []*m.Expr{e}})
		} else {
			sc.Token.Blocks[k].Checks = append(sc.Token.Blocks[k].Checks, m.Check{Queries: []m.Rule{{Head: gen.QueryHead, Body: []m.Pred{m.P("tags", s)}, Exprs: []*m.Expr{e}}}})
		}
		c.Token, c.Authz = sc.Token, sc.Authz
		sharedQuery = &m.Rule{Head: m.P("panel", s), Body: []m.Pred{m.P("tags", s)}}
	}
	c.F = sc.Schema.DrawAdversarialBlock(t, sc.Token, sc.Authz, true)
	c.F.Checks = nil
	c.Pos = rapid.IntRange(0, 3).Draw(t, "pos")
	c.Perm = rapid.Permutation(seqInts(len(sc.Token.Blocks) - 1)).Draw(t, "perm")
	closure := gen.AuthClosure(sc.Token, sc.Authz)
	var pool []m.Pred
	pool = append(pool, closure...)
	for _, b := range sc.Token.Blocks[1:] {
		pool = append(pool, b.Facts...)
	}
	pool = append(pool, c.F.Facts...)
	nq := rapid.IntRange(3, 5).Draw(t, "nq")
	for i := 0; i < nq; i++ {
		c.Queries = append(c.Queries, sc.Schema.DrawPanelQuery(t, pool))
	}
	if sharedQuery != nil {
		c.Queries = append(c.Queries, *sharedQuery)
	}
	return c
}

func TestC03(t *testing.T) {
	rec := obs.New("C03")
	defer rec.Flush(true)
	rec.SetExtra("rule", "rapid: goal-directed scenario with 1-3 later blocks, a panel of 3-5 queries generalised from authority-level and block-level facts, (i) a check-free block (facts and error-free rules aimed at the failing checks and allow policies) inserted at a drawn position, (ii) a permutation of the later blocks (token rebuilt in that order), (iii) block checks that need facts derived at authority level, (iv) a set carried by an authority-level or authorizer fact that a later block's rule or check computes with (intersection / union / contains) while a panel query reads the fact, (v) a later block whose own evaluation fails (its rule divides by zero on a matching binding): authorization fails as the reference says and the panel answers afterwards, on the same authorizer, are those of the token without that block. Oracle: outcome class, number of failed checks and every panel answer (after Authorize, and on an authorizer that was never authorized) are identical with and without the check-free block and for every block order; panel answers after Authorize equal the reference query over the authority-level closure; the verdict equals the reference. Non-trivial = a (wrong) model in which block facts and rules were authority-level would change the verdict, the failed-check count or a panel answer, or a block check is supported only by a derived authority-level fact; distinct by (token, authorizer, block, position, order).")
	rec.SetExtra("assumptions", []string{"the inserted block's rules are error-free: a rule that raises an error legitimately fails the authorization"})
	harness.RunWith(t, harness.Spec[C03Case]{ID: "C03", Draw: drawC03, Check: checkC03}, rec)
}
