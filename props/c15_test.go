package props

import (
	"fmt"
	"runtime/debug"
	"strings"
	"testing"

	biscuit "github.com/biscuit-auth/biscuit-go/v2"
	"pgregory.net/rapid"

	"verif/internal/bridge"
	"verif/internal/gen"
	"verif/internal/harness"
	m "verif/internal/model"
	"verif/internal/obs"
)

// C15 — the printed form of a block is faithful to what is enforced.

type C15Case struct {
	TC       gen.TextCase `json:"tc"` // a block text in the printable domain
	Pos      int          `json:"pos"`
	Others   []m.Block    `json:"others"` // the other blocks of the token (authority first)
	RootSeed uint64       `json:"root_seed"`
	Sealed   bool         `json:"sealed"`
}

func parsedKeys(b biscuit.ParsedBlock) (facts, rules, checks []string, err error) {
	f, r, c, _, err := liftParsed(parsed{facts: b.Facts, rules: b.Rules, checks: b.Checks})
	return f, r, c, err
}

// splitCode returns the element lines of one entry of Biscuit.Code().
func splitCode(code string) []string {
	var out []string
	// elements are separated by line breaks; a line break inside a string literal belongs to the
	// literal (strings of the domain hold no quote, so quote parity tells inside from outside)
	var lines []string
	start, inQuote := 0, false
	for i := 0; i < len(code); i++ {
		switch code[i] {
		case '"':
			inQuote = !inQuote
		case '\n':
			if !inQuote {
				lines = append(lines, code[start:i])
				start = i + 1
			}
		}
	}
	lines = append(lines, code[start:])
	for i, l := range lines {
		l = strings.TrimSpace(l)
		if i == 0 && strings.HasPrefix(l, "Block {") {
			continue
		}
		if i == len(lines)-1 && l == "}" {
			continue
		}
		l = strings.TrimSuffix(l, ";")
		if l != "" {
			out = append(out, l)
		}
	}
	return out
}

// authorityFields extracts the facts / rules / checks fields of the authority section of String().
func authorityFields(s string) (facts, rules, checks string, ok bool) {
	i := strings.Index(s, "authority: Block {")
	if i < 0 {
		return "", "", "", false
	}
	sec := s[i:]
	if j := strings.Index(sec, "\n\tblocks: ["); j >= 0 {
		sec = sec[:j]
	}
	get := func(name string) (string, bool) {
		k := strings.Index(sec, "\n\t\t"+name+": [")
		if k < 0 {
			return "", false
		}
		rest := sec[k+len("\n\t\t"+name+": ["):]
		e := strings.Index(rest, "]\n")
		if e < 0 {
			return "", false
		}
		return rest[:e], true
	}
	var ok1, ok2, ok3 bool
	facts, ok1 = get("facts")
	rules, ok2 = get("rules")
	checks, ok3 = get("checks")
	return facts, rules, checks, ok1 && ok2 && ok3
}

func checkC15(c C15Case, rec *obs.Recorder) (viol *obs.Violation) {
	defer func() {
		if r := recover(); r != nil {
			viol = obs.ViolK("panic", "block text %q: panic: %v\n%s", c.TC.Text, r, trimStack(debug.Stack()))
		}
	}()
	p1, err := sharedParser.Block(c.TC.Text, nil)
	if err != nil {
		return obs.Violf("block text %q is in the documented grammar, the parser returned %v", c.TC.Text, err)
	}
	wf, wr, wc, err := parsedKeys(p1)
	if err != nil {
		return obs.Violf("block text %q: unusable term in the parsed block: %v", c.TC.Text, err)
	}
	// the parse itself is C14's subject; still, it must agree with the generator
	ef, er, ec, _ := expectedKeys(c.TC)
	for _, d := range []string{firstDiff("facts", ef, wf), firstDiff("rules", er, wr), firstDiff("checks", ec, wc)} {
		if d != "" {
			return obs.Violf("block text %q: parse differs from the generator's structure: %s", c.TC.Text, d)
		}
	}

	pub, priv := bridge.RootKey(c.RootSeed)
	_ = pub
	rng := bridge.NewDetRand(c.RootSeed + 3)
	pos := c.Pos % (len(c.Others) + 1)
	var tok *biscuit.Biscuit
	build := func(i int) error {
		isP1 := i == pos
		if i == 0 {
			b := biscuit.NewBuilder(priv, biscuit.WithRNG(rng))
			if isP1 {
				if err := b.AddBlock(p1); err != nil {
					return err
				}
			} else if err := bridge.AddBlockTo(authorityAdapterOf(b), othersAt(c.Others, i, pos)); err != nil {
				return err
			}
			var err error
			tok, err = b.Build()
			return err
		}
		bb := tok.CreateBlock()
		if isP1 {
			if err := bb.AddBlock(p1); err != nil {
				return err
			}
		} else if err := bridge.AddBlockTo(bb, othersAt(c.Others, i, pos)); err != nil {
			return err
		}
		var err error
		tok, err = tok.Append(rng, bb.Build())
		return err
	}
	for i := 0; i <= len(c.Others); i++ {
		if err := build(i); err != nil {
			if strings.Contains(err.Error(), "fact already exists") {
				rec.Label("duplicate-fact-in-text")
				return nil
			}
			return obs.Violf("block text %q: cannot build the token: %v", c.TC.Text, err)
		}
	}
	if c.Sealed {
		if tok, err = tok.Seal(rng); err != nil {
			return obs.Violf("seal: %v", err)
		}
	}
	str, code := tok.String(), tok.Code()
	ser, err := tok.Serialize()
	if err != nil {
		return obs.Violf("block text %q: serialize: %v", c.TC.Text, err)
	}
	re, err := biscuit.Unmarshal(ser)
	if err != nil {
		return obs.Violf("block text %q: unmarshal: %v", c.TC.Text, err)
	}
	if s2 := re.String(); s2 != str {
		return obs.Violf("block text %q: String() differs after serialization:\n%s\nvs\n%s", c.TC.Text, str, s2)
	}
	if c2 := re.Code(); strings.Join(c2, "\x00") != strings.Join(code, "\x00") {
		return obs.Violf("block text %q: Code() differs after serialization", c.TC.Text)
	}

	var printed []string
	where := ""
	if pos >= 1 {
		if len(code) != len(c.Others) {
			return obs.Violf("block text %q: Code() has %d entries for %d later blocks", c.TC.Text, len(code), len(c.Others))
		}
		printed = splitCode(code[pos-1])
		where = fmt.Sprintf("Code()[%d]", pos-1)
	} else {
		f, r, ch, ok := authorityFields(str)
		if !ok {
			return obs.Violf("block text %q: cannot find the authority section in String():\n%s", c.TC.Text, str)
		}
		for _, x := range []string{f, r, ch} {
			if strings.TrimSpace(x) != "" {
				printed = append(printed, x)
			}
		}
		where = "the authority section of String()"
	}
	var gf, gr, gc []string
	var reparsed biscuit.ParsedBlock
	for _, line := range printed {
		pb, err := sharedParser.Block(line+";", nil)
		if err != nil {
			return obs.ViolK("unparsable", "block text %q: %s prints the element\n  %s\nwhich does not parse back: %v", c.TC.Text, where, line, err)
		}
		f, r, ch, err := parsedKeys(pb)
		if err != nil {
			return obs.Violf("block text %q: printed element %q re-parses to an unusable term: %v", c.TC.Text, line, err)
		}
		gf, gr, gc = append(gf, f...), append(gr, r...), append(gc, ch...)
		reparsed.Facts = append(reparsed.Facts, pb.Facts...)
		reparsed.Rules = append(reparsed.Rules, pb.Rules...)
		reparsed.Checks = append(reparsed.Checks, pb.Checks...)
	}
	// what was written is what is printed: a set literal keeps every written element
	// (the library stores set literals as written, so e.g. [1, 2, 2].length() is 3)
	if d := firstDiff("elements", blockMultiKeys(p1), blockMultiKeys(reparsed)); d != "" {
		return obs.ViolK("unfaithful", "block text %q at position %d: what %s prints parses back to something else (set literals compared element by element): %s\nprinted: %q", c.TC.Text, pos, where, d, printed)
	}
	for _, d := range []string{firstDiff("facts", wf, gf), firstDiff("rules", wr, gr), firstDiff("checks", wc, gc)} {
		if d != "" {
			return obs.ViolK("unfaithful", "block text %q at position %d: what %s prints parses back to something else: %s\nprinted: %q", c.TC.Text, pos, where, d, printed)
		}
	}

	two, method, paren := exprFeatures(c.TC)
	hasSet, hasDate := strings.Contains(c.TC.Text, "["), strings.Contains(c.TC.Text, "T")
	rec.Label(fmt.Sprintf("position:%d", pos))
	for l, on := range map[string]bool{"two-precedence-levels": two, "method-call": method, "parentheses": paren, "set": hasSet} {
		if on {
			rec.Label(l)
		}
	}
	if (two || method || paren || hasSet || hasDate) && rec.NonTrivial(fmt.Sprintf("%d|%s", pos, strings.Join(printed, "\n"))) {
		rec.Sample(map[string]any{"text": c.TC.Text, "position": pos, "printed": printed})
	}
	return nil
}

func othersAt(others []m.Block, i, pos int) m.Block {
	// blocks other than the one under test, in order
	k := i
	if i > pos {
		k = i - 1
	}
	if k < len(others) {
		return others[k]
	}
	return m.Block{}
}

type authAdapter struct{ b biscuit.Builder }

func (a authAdapter) AddFact(f biscuit.Fact) error   { return a.b.AddAuthorityFact(f) }
func (a authAdapter) AddRule(r biscuit.Rule) error   { return a.b.AddAuthorityRule(r) }
func (a authAdapter) AddCheck(c biscuit.Check) error { return a.b.AddAuthorityCheck(c) }
func (a authAdapter) SetContext(s string)            { a.b.SetContext(s) }

func authorityAdapterOf(b biscuit.Builder) authAdapter { return authAdapter{b} }

func drawC15(t *rapid.T) C15Case {
	c := C15Case{RootSeed: rapid.Uint64Range(1, 1<<16).Draw(t, "root"), Sealed: rapid.IntRange(0, 4).Draw(t, "sealed") == 0}
	s := gen.DrawSchema(t, gen.SmallProfile, 1, 3)
	n := rapid.IntRange(1, 3).Draw(t, "nothers")
	for i := 0; i < n; i++ {
		c.Others = append(c.Others, drawSimpleBlock(t, s))
	}
	c.Pos = rapid.IntRange(0, n).Draw(t, "pos")
	for tries := 0; ; tries++ {
		c.TC = gen.DrawText(t, gen.TextCfg{Printable: true, MaxDepth: 5, DupSets: true}, "block")
		// at position 0 the bracketed lists of String() are unambiguous only with at most one element each
		if c.Pos%(n+1) != 0 || (len(c.TC.Facts) <= 1 && len(c.TC.Rules) <= 1 && len(c.TC.Checks) <= 1) || tries > 3 {
			if c.Pos%(n+1) == 0 && !(len(c.TC.Facts) <= 1 && len(c.TC.Rules) <= 1 && len(c.TC.Checks) <= 1) {
				c.Pos = 1
			}
			break
		}
	}
	return c
}

func TestC15(t *testing.T) {
	rec := obs.New("C15")
	defer rec.Flush(true)
	rec.SetExtra("rule", "rapid block texts generated from the documented grammar restricted to the printable domain the property names (strings without quote / backslash / newline, non-negative integer literals, dates 1970-9999 at second granularity written in UTC, sets of non-string elements which may repeat an element, no parameters; literal values drawn at random besides boundary pools), with random layout, expressions by precedence level with explicit parentheses and method calls; the parsed block is placed in a token at position 0-3 among other generated blocks (position 0 = authority, then with at most one fact, one rule and one check), optionally sealed. Oracle: every element line of Code()[k-1] (or the facts / rules / checks fields of the authority section of String()) parses back, and the concatenation equals the original parse structurally (sets as sets, dates as instants); String() and Code() are identical before and after serialize+unmarshal and never panic. Non-trivial = the block has an expression with two precedence levels, a method call or a grouping, a set or a date; distinct by (position, printed text).")
	rec.SetExtra("assumptions", []string{"Code() prints later blocks only, one element per line; sets of strings print as symbol indexes and are outside the property's printable domain"})
	harness.RunWith(t, harness.Spec[C15Case]{ID: "C15", Draw: drawC15, Check: checkC15}, rec)
}

// ---- multiset keys: like the structural keys, but a set literal keeps every written element ----

func termMultiKey(t biscuit.Term) string {
	if s, ok := t.(biscuit.Set); ok {
		ks := make([]string, 0, len(s))
		for _, e := range s {
			ks = append(ks, termMultiKey(e))
		}
		sortStrings(ks)
		return "{" + strings.Join(ks, ",") + "}"
	}
	lt, err := bridge.LiftTerm(t)
	if err != nil {
		return "?" + err.Error()
	}
	return lt.Key()
}

func predMultiKey(p biscuit.Predicate) string {
	ks := make([]string, 0, len(p.IDs))
	for _, t := range p.IDs {
		ks = append(ks, termMultiKey(t))
	}
	return p.Name + "(" + strings.Join(ks, ",") + ")"
}

func ruleMultiKey(r biscuit.Rule) string {
	parts := []string{predMultiKey(r.Head), "<-"}
	for _, p := range r.Body {
		parts = append(parts, predMultiKey(p))
	}
	for _, e := range r.Expressions {
		var ops []string
		for _, op := range e {
			if v, ok := op.(biscuit.Value); ok {
				ops = append(ops, termMultiKey(v.Term))
			} else {
				ops = append(ops, fmt.Sprintf("%T:%v", op, op))
			}
		}
		parts = append(parts, "["+strings.Join(ops, " ")+"]")
	}
	return strings.Join(parts, " ")
}

// blockMultiKeys lists every element of a parsed block with sets kept as multisets.
func blockMultiKeys(b biscuit.ParsedBlock) []string {
	var out []string
	for _, f := range b.Facts {
		out = append(out, "fact "+predMultiKey(f.Predicate))
	}
	for _, r := range b.Rules {
		out = append(out, "rule "+ruleMultiKey(r))
	}
	for _, c := range b.Checks {
		var qs []string
		for _, q := range c.Queries {
			qs = append(qs, ruleMultiKey(q))
		}
		out = append(out, "check "+strings.Join(qs, " or "))
	}
	return out
}
