package props

import (
	"fmt"
	"math"
	"os"
	"sort"
	"strings"
	"testing"

	"github.com/biscuit-auth/biscuit-go/v2/datalog"
	"pgregory.net/rapid"

	"verif/internal/bridge"
	"verif/internal/gen"
	"verif/internal/harness"
	m "verif/internal/model"
	"verif/internal/obs"
	"verif/internal/ref"
)

// C06 — expressions are total, typed and arithmetically exact.

type C06Case struct {
	Layer string            `json:"layer"` // table | tree | seq
	Ops   []m.Op            `json:"ops"`
	Env   map[string]m.Term `json:"env,omitempty"`
}

func (c C06Case) key() string {
	ks := make([]string, 0, len(c.Env))
	for k, v := range c.Env {
		ks = append(ks, k+"="+v.Key())
	}
	sort.Strings(ks)
	return m.OpsKey(c.Ops) + "|" + strings.Join(ks, ",")
}

func (c C06Case) text() string {
	var sb strings.Builder
	for i, o := range c.Ops {
		if i > 0 {
			sb.WriteByte(' ')
		}
		if o.Kind == "val" {
			sb.WriteString(o.Val.Text())
		} else {
			sb.WriteString(o.Code)
		}
	}
	if len(c.Env) > 0 {
		ks := make([]string, 0, len(c.Env))
		for k, v := range c.Env {
			ks = append(ks, "$"+k+"="+v.Text())
		}
		sort.Strings(ks)
		sb.WriteString("  where " + strings.Join(ks, ", "))
	}
	return sb.String()
}

func isASCII(s string) bool {
	for i := 0; i < len(s); i++ {
		if s[i] >= 0x80 {
			return false
		}
	}
	return true
}

func isBoundaryInt(i int64) bool {
	return i >= math.MaxInt64-2 || i <= math.MinInt64+2
}

// evalLib evaluates through the library, converting a panic into a violation.
func evalLib(c C06Case) (res m.Term, err error, pan any) {
	defer func() {
		if p := recover(); p != nil {
			pan = p
		}
	}()
	syms := &datalog.SymbolTable{}
	expr := bridge.DLOps(c.Ops, syms)
	vals := map[datalog.Variable]*datalog.Term{}
	names := make([]string, 0, len(c.Env))
	for k := range c.Env {
		names = append(names, k)
	}
	sort.Strings(names)
	for _, k := range names {
		v := bridge.DLTerm(c.Env[k], syms)
		vals[datalog.Variable(syms.Insert(k))] = &v
	}
	out, e := expr.Evaluate(vals, syms)
	if e != nil {
		return m.Term{}, e, nil
	}
	if out == nil {
		return m.Term{}, nil, "nil result without error"
	}
	lt, le := bridge.LiftDLTerm(out, syms)
	if le != nil {
		return m.Term{}, nil, "unliftable result: " + le.Error()
	}
	// evaluation is a function of its operands: it must leave them as they were (they are
	// shared with the facts they came from) and give the same value when asked again
	for i, op := range expr {
		if v, ok := op.(datalog.Value); ok {
			now, err := bridge.LiftDLTerm(v.ID, syms)
			if err != nil || now.Key() != c.Ops[i].Val.Key() {
				return m.Term{}, nil, fmt.Sprintf("evaluation modified its operand %s (now %s)", c.Ops[i].Val.Text(), now.Text())
			}
		}
	}
	for _, k := range names {
		now, err := bridge.LiftDLTerm(*vals[datalog.Variable(syms.Insert(k))], syms)
		if err != nil || now.Key() != c.Env[k].Key() {
			return m.Term{}, nil, fmt.Sprintf("evaluation modified the value bound to $%s: %s (now %s)", k, c.Env[k].Text(), now.Text())
		}
	}
	out2, e2 := expr.Evaluate(vals, syms)
	if e2 != nil {
		return m.Term{}, nil, fmt.Sprintf("second evaluation of the same expression failed: %v", e2)
	}
	if lt2, err := bridge.LiftDLTerm(out2, syms); err != nil || lt2.Key() != lt.Key() {
		return m.Term{}, nil, fmt.Sprintf("second evaluation of the same expression gives %s, the first gave %s", lt2.Text(), lt.Text())
	}
	return lt, nil, nil
}

func checkC06(c C06Case, rec *obs.Recorder) *obs.Violation {
	want, werr := ref.EvalOps(c.Ops, c.Env)
	got, gerr, pan := evalLib(c)

	// non-triviality
	boundary, nonASCIILen := false, false
	for i, o := range c.Ops {
		if o.Kind == "val" {
			v := *o.Val
			if v.K == m.KVar {
				if b, ok := c.Env[v.S]; ok {
					v = b
				}
			}
			if v.K == m.KInt && isBoundaryInt(v.I) {
				boundary = true
			}
			if v.K == m.KStr && !isASCII(v.S) && i+1 < len(c.Ops) && c.Ops[i+1].Code == "length" {
				nonASCIILen = true
			}
		}
	}
	_, unspec := werr.(ref.Unspecified)
	nt := werr == nil || unspec || boundary || (werr != ref.ErrType && werr != ref.ErrUnknownOp)
	cls := "value"
	switch {
	case unspec:
		cls = "unspecified-mixed-sets"
	case werr == ref.ErrType:
		cls = "type-error"
	case werr == ref.ErrOverflow:
		cls = "overflow"
	case werr == ref.ErrDivZero:
		cls = "div-zero"
	case werr == ref.ErrStack:
		cls = "malformed"
	case werr == ref.ErrUnknown:
		cls = "unknown-var"
	case werr == ref.ErrRegex:
		cls = "bad-regex"
	}
	rec.Label(c.Layer + ":" + cls)
	if nt {
		if rec.NonTrivial(c.key()) {
			rec.Sample(map[string]string{"layer": c.Layer, "postfix": c.text(), "expected": expectText(want, werr)})
		}
	}

	if s, ok := pan.(string); ok && (strings.HasPrefix(s, "evaluation modified") || strings.HasPrefix(s, "second evaluation")) {
		return obs.ViolK("side-effect", "[%s]: %s", c.text(), s)
	}
	if pan != nil {
		return obs.ViolK("panic", "Evaluate panicked on [%s]: %v", c.text(), pan)
	}
	if unspec || nonASCIILen {
		return nil // totality only
	}
	if werr != nil {
		if gerr == nil {
			return obs.Violf("[%s]: expected an error (%v), library returned %s", c.text(), werr, got.Text())
		}
		return nil
	}
	if gerr != nil {
		return obs.Violf("[%s]: expected %s, library returned error %v", c.text(), want.Text(), gerr)
	}
	if got.Key() != want.Key() {
		return obs.Violf("[%s]: expected %s, library returned %s", c.text(), want.Text(), got.Text())
	}
	return nil
}

func expectText(t m.Term, err error) string {
	if err != nil {
		return "error: " + err.Error()
	}
	return t.Text()
}

// c06Pool is the boundary-value pool of the exhaustive table.
func c06Pool() []m.Term {
	var p []m.Term
	for _, i := range []int64{math.MinInt64, math.MinInt64 + 1, -3037000500, -2, -1, 0, 1, 2, 3, 7, 3037000499, 3037000500,
		1 << 32, math.MaxInt64 - 1, math.MaxInt64} {
		p = append(p, m.Int(i))
	}
	for _, s := range []string{"", "a", "ab", "b", "abc", "a.c", "^a", "(", "[a-", ".*", "read", "é"} {
		p = append(p, m.Str(s))
	}
	for _, d := range []uint64{0, 1, 1 << 32, math.MaxUint64} {
		p = append(p, m.Date(d))
	}
	for _, b := range [][]byte{{}, {0}, {0, 0xff}} {
		p = append(p, m.Bytes(b))
	}
	p = append(p, m.Bool(true), m.Bool(false))
	sets := [][]m.Term{
		{},
		{m.Int(1)}, {m.Int(1), m.Int(2)}, {m.Int(2), m.Int(3)}, {m.Int(math.MinInt64), m.Int(math.MaxInt64)},
		{m.Str("a")}, {m.Str("a"), m.Str("b")}, {m.Str("b"), m.Str("read")}, {m.Str("")},
		{m.Date(0)}, {m.Date(0), m.Date(1)},
		{m.Bytes([]byte{})}, {m.Bytes([]byte{0})}, {m.Bytes([]byte{0}), m.Bytes([]byte{0, 0xff})}, {m.Bytes([]byte{0, 0xff})},
		{m.Bool(true)}, {m.Bool(true), m.Bool(false)},
	}
	// larger sets: implementations may switch representation with size
	var ints9, strs9, bytes9, dates9 []m.Term
	for i := 0; i < 9; i++ {
		ints9 = append(ints9, m.Int(int64(i+1)))
		strs9 = append(strs9, m.Str(fmt.Sprintf("s%d", i)))
		bytes9 = append(bytes9, m.Bytes([]byte{byte(i), 0xff}))
		dates9 = append(dates9, m.Date(uint64(1000+i)))
	}
	sets = append(sets, ints9, strs9, bytes9, dates9, ints9[:8], bytes9[:8])
	for _, s := range sets {
		p = append(p, m.Term{K: m.KSet, Set: m.CanonSet(s)})
	}
	return p
}

func drawC06(t *rapid.T) C06Case {
	prof := gen.BoundaryProfile
	prof.Strs = append(append([]string{}, prof.Strs...), "é")
	if rapid.IntRange(0, 2).Draw(t, "layer") < 2 {
		// typed tree with an environment
		vars := map[string]gen.Type{}
		env := map[string]m.Term{}
		nv := rapid.IntRange(0, 3).Draw(t, "nvars")
		for i := 0; i < nv; i++ {
			ty := rapid.SampledFrom(gen.AllTypes).Draw(t, "vty")
			name := fmt.Sprintf("v%d", i)
			vars[name] = ty
			env[name] = prof.DrawConst(t, ty, "vval")
		}
		cfg := gen.ExprCfg{P: prof, Vars: vars, Parens: true}
		want := rapid.SampledFrom(gen.AllTypes).Draw(t, "want")
		if rapid.Bool().Draw(t, "wantbool") {
			want = gen.TBool
		}
		e := cfg.Draw(t, want, rapid.IntRange(1, 5).Draw(t, "depth"))
		return C06Case{Layer: "tree", Ops: e.Postfix(), Env: env}
	}
	// raw operator sequence: ill-typed, underflow, leftovers, deep stacks, unknown variables
	env := map[string]m.Term{"x": prof.DrawConst(t, rapid.SampledFrom(gen.AllTypes).Draw(t, "xty"), "x")}
	var ops []m.Op
	if rapid.IntRange(0, 5).Draw(t, "deep") == 0 {
		n := rapid.IntRange(990, 1010).Draw(t, "pushes")
		for i := 0; i < n; i++ {
			v := m.Int(1)
			ops = append(ops, m.Op{Kind: "val", Val: &v})
		}
		k := rapid.IntRange(0, n).Draw(t, "adds")
		if rapid.Bool().Draw(t, "alladds") {
			k = n - 1
		}
		for i := 0; i < k; i++ {
			ops = append(ops, m.Op{Kind: "bin", Code: "+"})
		}
		return C06Case{Layer: "seq", Ops: ops, Env: env}
	}
	n := rapid.IntRange(0, 8).Draw(t, "len")
	for i := 0; i < n; i++ {
		switch rapid.IntRange(0, 5).Draw(t, "kind") {
		case 0, 1, 2:
			var v m.Term
			switch rapid.IntRange(0, 7).Draw(t, "valkind") {
			case 0:
				v = m.Var("x")
			case 1:
				v = m.Var("unbound")
			default:
				v = prof.DrawConst(t, rapid.SampledFrom(gen.AllTypes).Draw(t, "cty"), "c")
			}
			ops = append(ops, m.Op{Kind: "val", Val: &v})
		case 3:
			ops = append(ops, m.Op{Kind: "un", Code: rapid.SampledFrom(m.UnOps).Draw(t, "un")})
		default:
			ops = append(ops, m.Op{Kind: "bin", Code: rapid.SampledFrom(m.BinOps).Draw(t, "bin")})
		}
	}
	return C06Case{Layer: "seq", Ops: ops, Env: env}
}

func TestC06(t *testing.T) {
	rec := obs.New("C06")
	defer rec.Flush(true)
	spec := harness.Spec[C06Case]{ID: "C06", Draw: drawC06, Check: checkC06}

	// layer 1: the complete operator x boundary-value table
	pool := c06Pool()
	known := harness.KnownKeys("C06")
	var first *obs.Violation
	var firstCase C06Case
	nviol := 0
	table := 0
	run := func(c C06Case) {
		table++
		rec.Eval()
		if v := harness.SafeCheck(spec, c, rec); v != nil {
			if _, ok := known[v.Key]; ok {
				rec.Excluded()
				return
			}
			nviol++
			if first == nil {
				first, firstCase = v, c
			}
		}
	}
	rec.SetExtra("rule", "layer table: every unary operator x pool value and every binary operator x pool x pool over a boundary pool (size reported as table_pool_size: 64-bit boundary integers, plain / regex-special / invalid-pattern strings, dates, byte arrays, booleans, the empty set, small sets and 8- and 9-element sets of every element type), enumerated completely; layer tree: rapid type-correct expression trees (depth<=5) over typed environments with 64-bit boundary integers; layer seq: raw operator sequences (ill-typed, underflow, leftovers, 990-1010 pushes, unbound variables). Besides agreement with the big-integer reference, every evaluation must leave its operands and its variable bindings unchanged and give the same result when repeated. Non-trivial = the reference result is a value, an arithmetic/regex/stack error (not a mere type error), or an operand is within 2 of MinInt64/MaxInt64; distinct = distinct (postfix sequence, environment) encoding.")
	rec.SetExtra("assumptions", []string{"Go regexp is the trusted primitive for matches (used by both sides)", "length of strings is compared on ASCII inputs only; union/intersection of sets with different element types: totality only", "division truncates toward zero"})
	if replayOrNoTable() || os.Getenv("VERIF_SKIP_DETERMINISTIC") != "" {
		harness.RunWith(t, spec, rec)
		return
	}
	rec.SetExtra("exhaustive", false)
	for _, op := range m.UnOps {
		for i := range pool {
			a := pool[i]
			run(C06Case{Layer: "table", Ops: []m.Op{{Kind: "val", Val: &a}, {Kind: "un", Code: op}}})
		}
	}
	for _, op := range m.BinOps {
		for i := range pool {
			for j := range pool {
				a, b := pool[i], pool[j]
				run(C06Case{Layer: "table", Ops: []m.Op{{Kind: "val", Val: &a}, {Kind: "val", Val: &b}, {Kind: "bin", Code: op}}})
			}
		}
	}
	rec.SetExtra("table_evaluations", table)
	rec.SetExtra("table_pool_size", len(pool))
	rec.SetExtra("table_exhaustive", true)
	rec.SetExtra("table_violations", nviol)
	if first != nil {
		rec.Fail(firstCase, first, false)
		t.Errorf("VIOLATION C06 (table, %d cells disagree): %s", nviol, first.Msg)
		return
	}
	harness.RunWith(t, spec, rec)
}
