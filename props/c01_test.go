package props

import (
	"bytes"
	"runtime/debug"
	"crypto/ed25519"
	"fmt"
	"testing"

	biscuit "github.com/biscuit-auth/biscuit-go/v2"
	"github.com/biscuit-auth/biscuit-go/v2/datalog"
	"pgregory.net/rapid"

	"verif/internal/bridge"
	"verif/internal/gen"
	"verif/internal/harness"
	m "verif/internal/model"
	"verif/internal/obs"
	"verif/internal/ref"
	"verif/internal/wire"
)

// C01 — only an unbroken root-signed signature chain verifies.

type Mutation struct {
	Kind  string `json:"kind"`
	I     int    `json:"i"`
	J     int    `json:"j"`
	Bit   int    `json:"bit"`
	Field string `json:"field,omitempty"` // block | key | sig | all
	N     uint64 `json:"n"`               // attacker key number
}

type C01Case struct {
	Target TokSpec  `json:"target"`
	Donor  TokSpec  `json:"donor"`
	Mut    Mutation `json:"mut"`
	Verify string   `json:"verify"` // own | donor | attacker
	Extra  m.Block  `json:"extra"`  // content of attacker-made / appended blocks
}

var c01Kinds = []string{
	"identity", "flip", "swap-field", "copy-field-from-donor", "reorder", "insert-copy", "insert-attacker",
	"remove", "truncate-keep-proof", "truncate-attacker-proof", "rekey", "proof-attacker-secret", "proof-donor",
	"proof-attacker-seal", "proof-none", "seal-by-holder", "unseal-random-secret", "holder-append", "attacker-chain",
	"algorithm", "size", "root-key-id", "raw-flip", "raw-truncate", "proof-both", "strip-last-with-own-secret",
	"proof-secret-64-with-public-key", "proof-secret-other-length", "truncate-proof-64-with-public-key", "seal-size",
}

func pickField(sb *wire.SignedBlock, f string) *[]byte {
	switch f {
	case "block":
		return &sb.Block
	case "key":
		return &sb.NextKey
	default:
		return &sb.Signature
	}
}

func nth(env *wire.Biscuit, i int) *wire.SignedBlock {
	if i == 0 {
		return &env.Authority
	}
	return &env.Blocks[i-1]
}

func flipBit(b []byte, bit int) {
	if len(b) == 0 {
		return
	}
	bit %= len(b) * 8
	b[bit/8] ^= 1 << uint(bit%8)
}

// applyMutation returns the mutated envelope, or raw bytes for byte-level mutations.
func applyMutation(c C01Case, tgtBytes []byte, tgt, donor *wire.Biscuit) (*wire.Biscuit, []byte) {
	env := tgt.Clone()
	mu := c.Mut
	n := 1 + len(env.Blocks)
	i, j := mu.I%n, mu.J%n
	apub, apriv, aseed := attackerKey(mu.N)
	dn := 1 + len(donor.Blocks)
	extra := encodeBlocks([]m.Block{c.Extra})[0]
	switch mu.Kind {
	case "identity":
	case "flip":
		switch mu.Field {
		case "proof":
			if env.Proof.HasSecret {
				flipBit(env.Proof.Secret, mu.Bit)
			} else {
				flipBit(env.Proof.Final, mu.Bit)
			}
		default:
			flipBit(*pickField(nth(env, i), mu.Field), mu.Bit)
		}
	case "swap-field":
		if mu.Field == "all" {
			a, b := *nth(env, i), *nth(env, j)
			*nth(env, i), *nth(env, j) = b, a
		} else {
			a, b := pickField(nth(env, i), mu.Field), pickField(nth(env, j), mu.Field)
			*a, *b = *b, *a
		}
	case "copy-field-from-donor":
		src := nth(donor, mu.J%dn)
		if mu.Field == "all" {
			*nth(env, i) = src.Clone()
		} else {
			*pickField(nth(env, i), mu.Field) = append([]byte{}, *pickField(src, mu.Field)...)
		}
	case "reorder":
		a, b := *nth(env, i), *nth(env, j)
		*nth(env, i), *nth(env, j) = b, a
	case "insert-copy":
		cp := nth(env, i).Clone()
		pos := j // insert before later block index j (0..len)
		if pos > len(env.Blocks) {
			pos = len(env.Blocks)
		}
		env.Blocks = append(env.Blocks[:pos], append([]wire.SignedBlock{cp}, env.Blocks[pos:]...)...)
	case "insert-attacker":
		npub, _, _ := attackerKey(mu.N + 1)
		sb := wire.SignedBlock{Block: extra, NextKey: npub, Signature: signPayload(apriv, extra, 0, npub)}
		pos := j
		if pos > len(env.Blocks) {
			pos = len(env.Blocks)
		}
		env.Blocks = append(env.Blocks[:pos], append([]wire.SignedBlock{sb}, env.Blocks[pos:]...)...)
	case "remove":
		if n == 1 {
			break
		}
		if i == 0 {
			env.Authority = env.Blocks[0]
			env.Blocks = env.Blocks[1:]
		} else {
			env.Blocks = append(env.Blocks[:i-1], env.Blocks[i:]...)
		}
	case "truncate-keep-proof":
		env.Blocks = env.Blocks[:i]
	case "truncate-attacker-proof":
		env.Blocks = env.Blocks[:i]
		env.Proof = wire.Proof{HasSecret: true, Secret: aseed}
	case "strip-last-with-own-secret":
		// a holder of T tries to present the parent of T using the secret it holds
		if len(env.Blocks) > 0 {
			env.Blocks = env.Blocks[:len(env.Blocks)-1]
		}
	case "rekey":
		// attacker announces its own key at position i and re-signs everything after it
		sb := nth(env, i)
		sb.NextKey = apub
		cur := apriv
		for k := i + 1; k < n; k++ {
			npub, npriv, seed := attackerKey(mu.N + uint64(k))
			nb := nth(env, k)
			nb.NextKey = npub
			nb.Signature = signPayload(cur, nb.Block, 0, npub)
			cur = npriv
			aseed = seed
		}
		if i == n-1 {
			_, _, aseed = attackerKey(mu.N)
		}
		env.Proof = wire.Proof{HasSecret: true, Secret: aseed}
	case "proof-attacker-secret":
		env.Proof = wire.Proof{HasSecret: true, Secret: aseed}
	case "proof-donor":
		env.Proof = wire.Proof{HasSecret: donor.Proof.HasSecret, Secret: donor.Proof.Secret, HasFinal: donor.Proof.HasFinal, Final: donor.Proof.Final}
	case "proof-attacker-seal":
		all := env.All()
		env.Proof = wire.Proof{HasFinal: true, Final: sealSignature(apriv, all[len(all)-1])}
	case "proof-none":
		env.Proof = wire.Proof{}
	case "proof-secret-64-with-public-key", "truncate-proof-64-with-public-key":
		// a 64-byte "secret" whose second half is the last announced public key (the layout of an
		// expanded ed25519 private key) made by someone who knows no private key at all
		if mu.Kind == "truncate-proof-64-with-public-key" {
			env.Blocks = env.Blocks[:i]
		}
		all := env.All()
		fake := append(append([]byte{}, aseed...), all[len(all)-1].NextKey...)
		env.Proof = wire.Proof{HasSecret: true, Secret: fake}
	case "proof-secret-other-length":
		// the genuine secret padded or cut to another length
		if env.Proof.HasSecret {
			l := []int{0, 1, 31, 33, 64}[mu.Bit%5]
			s := make([]byte, l)
			copy(s, env.Proof.Secret)
			env.Proof.Secret = s
		} else {
			env.Proof = wire.Proof{HasSecret: true, Secret: append(append([]byte{}, aseed...), aseed...)}
		}
	case "proof-both":
		// both oneof members on the wire: the last one (final signature) wins
		env.Proof.HasFinal = true
		env.Proof.Final = append([]byte{}, apub...)
		env.Proof.Final = append(env.Proof.Final, apub...)
	case "seal-by-holder":
		// whoever holds the next secret may seal: must be accepted
		if env.Proof.HasSecret && len(env.Proof.Secret) == 32 {
			all := env.All()
			env.Proof = wire.Proof{HasFinal: true, Final: sealSignature(ed25519.NewKeyFromSeed(env.Proof.Secret), all[len(all)-1])}
		}
	case "seal-size":
		// a genuine seal (the token's own, or one made with the holder's secret) with bytes added or removed
		if env.Proof.HasSecret && len(env.Proof.Secret) == 32 {
			all := env.All()
			env.Proof = wire.Proof{HasFinal: true, Final: sealSignature(ed25519.NewKeyFromSeed(env.Proof.Secret), all[len(all)-1])}
		}
		if env.Proof.HasFinal && len(env.Proof.Final) > 0 {
			switch mu.J % 3 {
			case 0:
				env.Proof.Final = append(env.Proof.Final, byte(mu.Bit))
			case 1:
				env.Proof.Final = append(append([]byte{}, env.Proof.Final...), env.Proof.Final...)
			default:
				env.Proof.Final = env.Proof.Final[:len(env.Proof.Final)-1]
			}
		}
	case "unseal-random-secret":
		env.Proof = wire.Proof{HasSecret: true, Secret: aseed}
	case "holder-append":
		// legitimate attenuation done with this package's own signer
		if env.Proof.HasSecret && len(env.Proof.Secret) == 32 {
			npub, _, nseed := attackerKey(mu.N + 7)
			priv := ed25519.NewKeyFromSeed(env.Proof.Secret)
			env.Blocks = append(env.Blocks, wire.SignedBlock{Block: extra, NextKey: npub, Signature: signPayload(priv, extra, 0, npub)})
			env.Proof = wire.Proof{HasSecret: true, Secret: nseed}
		}
	case "attacker-chain":
		blocks := [][]byte{}
		for _, sb := range env.All() {
			blocks = append(blocks, sb.Block)
		}
		env = wireChain(apriv, mu.N, blocks, c.Target.Sealed)
	case "algorithm":
		vals := []uint64{1, 2, 1 << 32, 1<<32 + 1}
		nth(env, i).Alg = vals[mu.Bit%len(vals)]
	case "size":
		f := pickField(nth(env, i), map[bool]string{true: "key", false: "sig"}[mu.Bit%2 == 0])
		if mu.J%2 == 0 && len(*f) > 0 {
			*f = (*f)[:len(*f)-1]
		} else {
			*f = append(*f, 0)
		}
	case "root-key-id":
		id := uint32(mu.N)
		env.RootKeyID = &id
	case "raw-flip":
		raw := append([]byte{}, tgtBytes...)
		flipBit(raw, mu.Bit)
		return nil, raw
	case "raw-truncate":
		if len(tgtBytes) == 0 {
			return nil, tgtBytes
		}
		return nil, append([]byte{}, tgtBytes[:mu.Bit%len(tgtBytes)]...)
	}
	return env, nil
}

// libAccepts reports whether Unmarshal followed by AuthorizerFor(K) succeeds,
// whether Unmarshal alone did, the re-serialization, and any panic.
func libAccepts(data []byte, key ed25519.PublicKey) (accepted, unmarshalled bool, reser []byte, detail string, pan any) {
	defer func() {
		if p := recover(); p != nil {
			pan = fmt.Sprintf("%v\n%s", p, trimStack(debug.Stack()))
		}
	}()
	b, err := biscuit.Unmarshal(data)
	if err != nil {
		return false, false, nil, "unmarshal: " + err.Error(), nil
	}
	unmarshalled = true
	reser, _ = b.Serialize()
	_, err1 := b.AuthorizerFor(biscuit.WithSingularRootPublicKey(key), bridge.WorldOpts())
	_, err2 := b.Authorizer(key)
	if (err1 == nil) != (err2 == nil) {
		return false, true, reser, fmt.Sprintf("AuthorizerFor=%v but Authorizer=%v", err1, err2), "entry points disagree"
	}
	if err1 != nil {
		return false, true, reser, "verify: " + err1.Error(), nil
	}
	return true, true, reser, "", nil
}

func checkC01(c C01Case, rec *obs.Recorder) *obs.Violation {
	tgt, stages, tpub, err := c.Target.build()
	if err != nil {
		return obs.Violf("cannot build target token: %v", err)
	}
	don, _, dpub, err := c.Donor.build()
	if err != nil {
		return obs.Violf("cannot build donor token: %v", err)
	}
	// every token the history produces verifies under its own root, and only under it
	var historyBytes [][]byte
	for k, st := range stages {
		ser, err := st.Serialize()
		if err != nil {
			return obs.Violf("stage %d does not serialize: %v", k, err)
		}
		historyBytes = append(historyBytes, ser)
		ok, _, _, detail, pan := libAccepts(ser, tpub)
		if pan != nil {
			return obs.ViolK("panic", "stage %d: panic %v", k, pan)
		}
		if !ok {
			return obs.Violf("token produced by the library (stage %d of build/append/seal) is rejected under its own root: %s", k, detail)
		}
		if r := ref.VerifyChain(ser, tpub); !r.OK {
			return obs.Violf("token produced by the library (stage %d) does not verify per the reference chain walk: %s", k, r.Reason)
		}
	}
	// sibling derivations: two tokens appended to the same stage leave everything else intact
	if msg := forkAndRecheck(stages, tpub, c.Target.RngKey+9, c.Extra, c.Mut.J); msg != "" {
		return obs.ViolK("fork", "history of %d blocks (sealed=%v): %s", len(c.Target.Blocks), c.Target.Sealed, msg)
	}
	tgtBytes := historyBytes[len(historyBytes)-1]
	donBytes, _ := don.Serialize()
	historyBytes = append(historyBytes, donBytes)
	_ = tgt
	tenv, err := wire.DecodeBiscuit(tgtBytes)
	if err != nil {
		return obs.Violf("independent reader cannot decode a token produced by the library: %v", err)
	}
	denv, err := wire.DecodeBiscuit(donBytes)
	if err != nil {
		return obs.Violf("independent reader cannot decode donor token: %v", err)
	}
	menv, raw := applyMutation(c, tgtBytes, tenv, denv)
	var key ed25519.PublicKey
	switch c.Verify {
	case "donor":
		key = dpub
	case "attacker":
		key, _, _ = attackerKey(c.Mut.N)
	default:
		key = tpub
	}
	structural := raw == nil
	var data []byte
	var want ref.ChainResult
	if structural {
		data = menv.Encode()
		want = ref.VerifyChain(data, key) // judged as decoded from the wire (oneof: last member wins)
	} else {
		data = raw
		want = ref.VerifyChain(raw, key)
	}
	got, unm, reser, detail, pan := libAccepts(data, key)
	if pan != nil {
		return obs.ViolK("panic", "mutation %+v verify=%s: %v (%s)", c.Mut, c.Verify, pan, detail)
	}
	same := false
	for _, h := range historyBytes {
		if bytes.Equal(h, data) {
			same = true
		}
	}
	sealed := "unsealed"
	if c.Target.Sealed {
		sealed = "sealed"
	}
	rec.Label("mut:" + c.Mut.Kind)
	if want.OK {
		rec.Label("expect:accept")
	} else {
		rec.Label("expect:reject")
	}
	if unm && !same {
		key := fmt.Sprintf("%s|%s|%d|%d|%s|%s|%x", c.Mut.Kind, c.Mut.Field, c.Mut.I, len(c.Target.Blocks), sealed, c.Verify, obs.Hash(string(data)))
		if rec.NonTrivial(key) {
			rec.Sample(map[string]any{"mutation": c.Mut, "verify_under": c.Verify, "target_blocks": len(c.Target.Blocks), "sealed": c.Target.Sealed,
				"reference_accepts": want.OK, "reference_reason": want.Reason, "token_bytes": len(data)})
		}
	}
	if structural {
		if got != want.OK {
			return obs.Violf("mutation %+v on a %d-block %s token, verified under %s root: reference says accept=%v (%s), library says accept=%v (%s)",
				c.Mut, len(c.Target.Blocks), sealed, c.Verify, want.OK, want.Reason, got, detail)
		}
		// a verifier that keeps one Unmarshaler value: the presented token is parsed, then a genuine
		// token (the unmutated target) is parsed with the same value, and only then is the first one
		// verified -- the verdict is about the token that was presented
		if len(historyBytes) > 0 {
			u := &biscuit.Unmarshaler{Symbols: &datalog.SymbolTable{}}
			if first, err := u.Unmarshal(append([]byte{}, data...)); err == nil {
				_, _ = u.Unmarshal(append([]byte{}, tgtBytes...))
				_, verr := first.AuthorizerFor(biscuit.WithSingularRootPublicKey(key), bridge.WorldOpts())
				if (verr == nil) != want.OK {
					return obs.ViolK("kept-unmarshaler", "mutation %+v on a %d-block %s token, verified under %s root after the same Unmarshaler value had parsed a genuine token: reference says accept=%v (%s), library says accept=%v (%v)",
						c.Mut, len(c.Target.Blocks), sealed, c.Verify, want.OK, want.Reason, verr == nil, verr)
				}
			}
		}
		return nil
	}
	// byte-level mutation: decoders may legitimately differ on protobuf corner cases,
	// so only soundness is asserted, on the library's own canonical re-serialization
	if got {
		if r := ref.VerifyChain(reser, key); !r.OK && !want.OK {
			return obs.Violf("byte mutation %+v: library accepts under %s root, reference rejects both the bytes (%s) and the library's re-serialization (%s)",
				c.Mut, c.Verify, want.Reason, r.Reason)
		}
	}
	return nil
}

func drawC01(t *rapid.T) C01Case {
	s := gen.DrawSchema(t, gen.SmallProfile, 1, 3)
	c := C01Case{Target: drawTokSpec(t, s, 4), Donor: drawTokSpec(t, s, 2)}
	if c.Donor.RootSeed == c.Target.RootSeed {
		c.Donor.RootSeed++
	}
	c.Donor.Sealed = c.Target.Sealed // so that proofs can be exchanged meaningfully
	if rapid.IntRange(0, 4).Draw(t, "donor.sameroot") == 0 {
		c.Donor.RootSeed = c.Target.RootSeed // splice between two tokens of the same issuer
	}
	c.Extra = drawSimpleBlock(t, s)
	c.Mut = Mutation{
		Kind:  c01Kinds[spreadInt(t, "kind", len(c01Kinds))],
		I:     rapid.IntRange(0, 5).Draw(t, "i"),
		J:     rapid.IntRange(0, 5).Draw(t, "j"),
		Bit:   rapid.IntRange(0, 4095).Draw(t, "bit"),
		Field: rapid.SampledFrom([]string{"block", "key", "sig", "all", "proof"}).Draw(t, "field"),
		N:     rapid.Uint64Range(1, 1<<20).Draw(t, "n"),
	}
	c.Verify = "own"
	switch {
	case c.Mut.Kind == "attacker-chain":
		c.Verify = rapid.SampledFrom([]string{"attacker", "attacker", "own"}).Draw(t, "verify")
	case rapid.IntRange(0, 9).Draw(t, "wrongroot") == 0:
		c.Verify = rapid.SampledFrom([]string{"donor", "attacker"}).Draw(t, "verify")
	}
	return c
}

func TestC01(t *testing.T) {
	rec := obs.New("C01")
	defer rec.Flush(true)
	rec.SetExtra("rule", "rapid histories (target token: build, 0-4 appends, optional seal, serialize; donor token of another or the same issuer) x one mutation from a 30-entry catalogue applied to the envelope decoded by the independent reader and re-encoded (bit flips in block/key/signature/proof, field swap inside a token, field or whole-block copy from the donor, reorder, insert copy / attacker-signed block, remove, truncate keeping or replacing the proof, strip last block, re-key with attacker keys, proof replaced by attacker secret / a 64-byte secret whose second half is the announced public key / a secret of another length / donor proof / attacker seal / nothing / both members, seal by the legitimate holder, a genuine seal with bytes added / doubled / removed, legitimate append and complete attacker-signed chain built with this package's own signer, algorithm value, key/signature size, root key id, raw byte flip / truncation) x verifying root (own, donor, attacker). Every stage of the history must verify under its own root, and two tokens appended to a drawn stage must verify and leave every earlier token's bytes unchanged. Oracle: independent ed25519 chain walk, both directions for structural mutations (the verdict is also taken after the same Unmarshaler value has parsed the genuine target), soundness for raw byte mutations (thorough adds native fuzzing of the bytes with the soundness oracle). Non-trivial = the mutated token still unmarshals and differs from every token of the history; distinct by (mutation kind, field, position, length, sealed, root, bytes).")
	rec.SetExtra("assumptions", []string{"crypto/ed25519 is trusted", "root key id and protobuf encoding slack are unsigned and not claimed tamper-evident", "shows resistance to the catalogue, not cryptographic unforgeability"})
	harness.RunWith(t, harness.Spec[C01Case]{ID: "C01", Draw: drawC01, Check: checkC01}, rec)
}
