// Package harness runs one property: replay file, committed corpus, then the
// rapid search. A property is a pair (Draw, Check): Draw builds a JSON-able
// case from rapid draws only, Check is the oracle and is a pure function of the
// case. The shrunk failing case itself (not rapid's bit stream) becomes the
// replay file.
package harness

import (
	"bufio"
	"encoding/json"
	"fmt"
	"os"
	"path/filepath"
	"runtime/debug"
	"sort"
	"strings"
	"testing"

	"pgregory.net/rapid"

	"verif/internal/obs"
)

type Spec[C any] struct {
	ID       string
	Draw     func(t *rapid.T) C
	Check    func(c C, rec *obs.Recorder) *obs.Violation
	Inflight bool // write each case to disk before running it (process-death attribution)
}

func Root() string {
	if r := os.Getenv("VERIF_ROOT"); r != "" {
		return r
	}
	return "/verif"
}

// Known findings: "known: property=<ID> key=<key> ..." lines.
func KnownKeys(id string) map[string]string {
	out := map[string]string{}
	f, err := os.Open(filepath.Join(Root(), "KNOWN_FINDINGS.txt"))
	if err != nil {
		return out
	}
	defer f.Close()
	sc := bufio.NewScanner(f)
	sc.Buffer(make([]byte, 1<<20), 1<<20)
	for sc.Scan() {
		line := strings.TrimSpace(sc.Text())
		if !strings.HasPrefix(line, "known:") {
			continue
		}
		fields := strings.Fields(strings.TrimPrefix(line, "known:"))
		var pid, key string
		for _, fl := range fields {
			if strings.HasPrefix(fl, "property=") {
				pid = strings.TrimPrefix(fl, "property=")
			}
			if strings.HasPrefix(fl, "key=") {
				key = strings.TrimPrefix(fl, "key=")
			}
		}
		if pid == id && key != "" {
			what := line
			if i := strings.Index(line, "::"); i >= 0 {
				what = strings.TrimSpace(line[i+2:])
			}
			out[key] = what
		}
	}
	return out
}

func SafeCheck[C any](s Spec[C], c C, rec *obs.Recorder) (v *obs.Violation) {
	defer func() {
		if p := recover(); p != nil {
			st := string(debug.Stack())
			if len(st) > 3000 {
				st = st[:3000]
			}
			v = &obs.Violation{Key: "panic", Msg: fmt.Sprintf("panic: %v\n%s", p, st)}
		}
	}()
	return s.Check(c, rec)
}

type replayFile[C any] struct {
	Property string `json:"property"`
	Msg      string `json:"msg"`
	Key      string `json:"key"`
	Case     C      `json:"case"`
}

func loadCase[C any](path string) (C, error) {
	var rf replayFile[C]
	b, err := os.ReadFile(path)
	if err != nil {
		return rf.Case, err
	}
	// a replay file wraps the case; an inflight file is the bare case
	var probe map[string]json.RawMessage
	if err := json.Unmarshal(b, &probe); err == nil {
		if raw, ok := probe["case"]; ok {
			err := json.Unmarshal(raw, &rf.Case)
			return rf.Case, err
		}
	}
	err = json.Unmarshal(b, &rf.Case)
	return rf.Case, err
}

// Run executes replay / corpus / search for one spec with a fresh recorder.
func Run[C any](t *testing.T, s Spec[C]) {
	rec := obs.New(s.ID)
	defer rec.Flush(true)
	RunWith(t, s, rec)
}

func RunWith[C any](t *testing.T, s Spec[C], rec *obs.Recorder) {
	known := KnownKeys(s.ID)
	report := func(c C, v *obs.Violation) {
		_, isKnown := known[v.Key]
		rec.Fail(c, v, isKnown)
		if !isKnown {
			t.Errorf("VIOLATION %s: %s", s.ID, v.Msg)
		}
	}

	if p := os.Getenv("VERIF_REPLAY"); p != "" {
		c, err := loadCase[C](p)
		if err != nil {
			t.Fatalf("cannot load replay %s: %v", p, err)
		}
		reps := 1
		if s.ID == "C19" {
			reps = 20
		}
		for i := 0; i < reps; i++ {
			rec.Eval()
			if v := SafeCheck(s, c, rec); v != nil {
				report(c, v)
				return
			}
		}
		return
	}

	// committed corpus: regression cases, replayed first in every tier
	files, _ := filepath.Glob(filepath.Join(Root(), "corpus", s.ID, "*.json"))
	sort.Strings(files)
	for _, f := range files {
		c, err := loadCase[C](f)
		if err != nil {
			t.Fatalf("cannot load corpus case %s: %v", f, err)
		}
		rec.Eval()
		rec.Label("corpus")
		if v := SafeCheck(s, c, rec); v != nil {
			report(c, v)
		}
	}
	if t.Failed() || os.Getenv("VERIF_NOSEARCH") != "" || s.Draw == nil {
		return
	}

	var pendC *C
	var pendV *obs.Violation
	defer func() {
		if pendV != nil {
			report(*pendC, pendV)
		}
	}()
	rapid.Check(t, func(rt *rapid.T) {
		c := s.Draw(rt)
		rec.Eval()
		if s.Inflight {
			rec.Inflight(c)
		}
		v := SafeCheck(s, c, rec)
		if v == nil {
			return
		}
		if _, ok := known[v.Key]; ok {
			rec.Excluded()
			rec.Label("known:" + v.Key)
			return
		}
		cc := c
		pendC, pendV = &cc, v
		rt.Fatalf("%s", v.Msg)
	})
	if s.Inflight {
		rec.ClearInflight()
	}
}
