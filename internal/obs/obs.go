// Package obs collects what a check run actually covered: number of cases,
// class labels, hashes of distinct non-trivial cases, a few samples, and the
// violations found. Each test process writes one partial file; the driver merges
// them into evidence/<id>.json.
package obs

import (
	"encoding/json"
	"fmt"
	"hash/fnv"
	"os"
	"path/filepath"
	"sort"
	"sync"
)

type Violation struct {
	Msg string `json:"msg"`
	Key string `json:"key,omitempty"` // stable key used to match known findings
}

func (v *Violation) Error() string { return v.Msg }

func Violf(format string, args ...any) *Violation {
	return &Violation{Msg: fmt.Sprintf(format, args...)}
}

func ViolK(key, format string, args ...any) *Violation {
	return &Violation{Msg: fmt.Sprintf(format, args...), Key: key}
}

type FailureRec struct {
	Replay string `json:"replay"`
	Msg    string `json:"msg"`
	Key    string `json:"key,omitempty"`
	Known  bool   `json:"known,omitempty"`
}

type Partial struct {
	Property      string            `json:"property"`
	Evaluations   int               `json:"evaluations"`
	Labels        map[string]int    `json:"labels"`
	Hashes        []string          `json:"hashes"`
	Samples       []any             `json:"samples"`
	ExcludedKnown int               `json:"excluded_known"`
	OutOfFragment int               `json:"out_of_fragment"`
	Failures      []FailureRec      `json:"failures"`
	Extra         map[string]any    `json:"extra,omitempty"`
	Counters      map[string]int    `json:"counters,omitempty"`
	Notes         map[string]string `json:"notes,omitempty"`
	Done          bool              `json:"done"`
}

type Recorder struct {
	mu       sync.Mutex
	id       string
	out      string
	evals    int
	labels   map[string]int
	counters map[string]int
	hashes   map[uint64]struct{}
	samples  []any
	sampleNT int
	excluded int
	oof      int
	failures []FailureRec
	extra    map[string]any
	maxSamp  int
}

func New(id string) *Recorder {
	return &Recorder{
		id:       id,
		out:      os.Getenv("VERIF_OUT"),
		labels:   map[string]int{},
		counters: map[string]int{},
		hashes:   map[uint64]struct{}{},
		extra:    map[string]any{},
		maxSamp:  6,
	}
}

func (r *Recorder) ID() string { return r.id }

// Eval counts one generated case / execution.
func (r *Recorder) Eval() { r.mu.Lock(); r.evals++; r.mu.Unlock() }

func (r *Recorder) EvalN(n int) { r.mu.Lock(); r.evals += n; r.mu.Unlock() }

func (r *Recorder) Label(l string) { r.mu.Lock(); r.labels[l]++; r.mu.Unlock() }

func (r *Recorder) Count(l string, n int) { r.mu.Lock(); r.counters[l] += n; r.mu.Unlock() }

func (r *Recorder) Excluded() { r.mu.Lock(); r.excluded++; r.mu.Unlock() }

func (r *Recorder) OutOfFragment() { r.mu.Lock(); r.oof++; r.mu.Unlock() }

func (r *Recorder) SetExtra(k string, v any) { r.mu.Lock(); r.extra[k] = v; r.mu.Unlock() }

func Hash(s string) uint64 {
	h := fnv.New64a()
	h.Write([]byte(s))
	return h.Sum64()
}

// NonTrivial records a non-trivial case by canonical key; returns true when new.
func (r *Recorder) NonTrivial(key string) bool {
	h := Hash(key)
	r.mu.Lock()
	defer r.mu.Unlock()
	if _, ok := r.hashes[h]; ok {
		return false
	}
	r.hashes[h] = struct{}{}
	return true
}

// Sample offers a case for the sample list (kept: the first few, spread out).
func (r *Recorder) Sample(v any) {
	r.mu.Lock()
	defer r.mu.Unlock()
	r.sampleNT++
	if len(r.samples) < r.maxSamp {
		// keep cases 1, 2, 4, 8, ... so samples are spread over the run
		n := r.sampleNT
		if n&(n-1) == 0 {
			r.samples = append(r.samples, v)
		}
	}
}

func (r *Recorder) Samples() int { r.mu.Lock(); defer r.mu.Unlock(); return len(r.samples) }

// Inflight stores the case about to be executed so that a process death can be
// attributed to it.
func (r *Recorder) Inflight(c any) {
	if r.out == "" {
		return
	}
	b, err := json.Marshal(c)
	if err != nil {
		return
	}
	_ = os.WriteFile(r.out+".inflight", b, 0o644)
}

func (r *Recorder) ClearInflight() {
	if r.out != "" {
		_ = os.Remove(r.out + ".inflight")
	}
}

// Fail records a violation and writes the case as a replay file.
func (r *Recorder) Fail(c any, v *Violation, known bool) string {
	dir := os.Getenv("VERIF_REPLAY_DIR")
	if dir == "" {
		dir = "replays"
	}
	_ = os.MkdirAll(dir, 0o755)
	b, _ := json.MarshalIndent(map[string]any{"property": r.id, "msg": v.Msg, "key": v.Key, "case": c}, "", " ")
	path := filepath.Join(dir, fmt.Sprintf("%s-%016x.json", r.id, Hash(string(b))))
	_ = os.WriteFile(path, b, 0o644)
	r.mu.Lock()
	r.failures = append(r.failures, FailureRec{Replay: path, Msg: v.Msg, Key: v.Key, Known: known})
	r.mu.Unlock()
	return path
}

// ReplaceLastFailure is used while rapid shrinks: only the last (smallest)
// failure of a search is kept.
func (r *Recorder) DropFailuresFrom(n int) {
	r.mu.Lock()
	for _, f := range r.failures[n:] {
		_ = os.Remove(f.Replay)
	}
	r.failures = r.failures[:n]
	r.mu.Unlock()
}

func (r *Recorder) NumFailures() int { r.mu.Lock(); defer r.mu.Unlock(); return len(r.failures) }

func (r *Recorder) Flush(done bool) {
	if r.out == "" {
		return
	}
	r.mu.Lock()
	p := Partial{
		Property:      r.id,
		Evaluations:   r.evals,
		Labels:        r.labels,
		Counters:      r.counters,
		Samples:       r.samples,
		ExcludedKnown: r.excluded,
		OutOfFragment: r.oof,
		Failures:      r.failures,
		Extra:         r.extra,
		Done:          done,
	}
	hs := make([]string, 0, len(r.hashes))
	for h := range r.hashes {
		hs = append(hs, fmt.Sprintf("%016x", h))
	}
	sort.Strings(hs)
	p.Hashes = hs
	r.mu.Unlock()
	b, _ := json.Marshal(p)
	tmp := r.out + ".tmp"
	if err := os.WriteFile(tmp, b, 0o644); err == nil {
		_ = os.Rename(tmp, r.out)
	}
}
