// Package bridge drives the public API of the library from model values and
// lifts library values back into the model. It is the only place where library
// structs are inspected; comparisons are always made on model values.
package bridge

import (
	"crypto/ed25519"
	"crypto/sha256"
	"encoding/binary"
	"errors"
	"fmt"
	"hash/fnv"
	"io"
	"regexp"
	"strings"
	"time"

	biscuit "github.com/biscuit-auth/biscuit-go/v2"
	"github.com/biscuit-auth/biscuit-go/v2/datalog"

	m "verif/internal/model"
	"verif/internal/ref"
)

// ---------- deterministic randomness ----------

// DetRand is a counter-mode SHA-256 stream: a run is a function of code + seed.
type DetRand struct {
	key uint64
	ctr uint64
	buf []byte
}

func NewDetRand(key uint64) *DetRand { return &DetRand{key: key} }

func (d *DetRand) Read(p []byte) (int, error) {
	n := 0
	for n < len(p) {
		if len(d.buf) == 0 {
			var in [16]byte
			binary.LittleEndian.PutUint64(in[:8], d.key)
			binary.LittleEndian.PutUint64(in[8:], d.ctr)
			d.ctr++
			h := sha256.Sum256(in[:])
			d.buf = h[:]
		}
		c := copy(p[n:], d.buf)
		d.buf = d.buf[c:]
		n += c
	}
	return n, nil
}

// Chunked delivers the bytes of r at most n per Read (a healthy source that
// simply returns short reads).
type Chunked struct {
	R io.Reader
	N int
}

func (c Chunked) Read(p []byte) (int, error) {
	if c.N > 0 && len(p) > c.N {
		p = p[:c.N]
	}
	return c.R.Read(p)
}

func RootKey(seed uint64) (ed25519.PublicKey, ed25519.PrivateKey) {
	var in [8]byte
	binary.LittleEndian.PutUint64(in[:], seed)
	h := sha256.Sum256(append([]byte("verif-root"), in[:]...))
	priv := ed25519.NewKeyFromSeed(h[:])
	return priv.Public().(ed25519.PublicKey), priv
}

// ---------- model -> library ----------

func ToTerm(t m.Term) biscuit.Term {
	switch t.K {
	case m.KInt:
		return biscuit.Integer(t.I)
	case m.KStr:
		return biscuit.String(t.S)
	case m.KDate:
		return biscuit.Date(time.Unix(int64(t.D), 0).UTC())
	case m.KBytes:
		return biscuit.Bytes(append([]byte{}, t.B...))
	case m.KBool:
		return biscuit.Bool(t.Bo)
	case m.KVar:
		return biscuit.Variable(t.S)
	case m.KSet:
		s := make(biscuit.Set, 0, len(t.Set))
		for _, e := range t.Set {
			s = append(s, ToTerm(e))
		}
		return s
	}
	panic("bridge: bad term kind")
}

func ToPred(p m.Pred) biscuit.Predicate {
	ids := make([]biscuit.Term, 0, len(p.Terms))
	for _, t := range p.Terms {
		ids = append(ids, ToTerm(t))
	}
	return biscuit.Predicate{Name: p.Name, IDs: ids}
}

func ToFact(p m.Pred) biscuit.Fact { return biscuit.Fact{Predicate: ToPred(p)} }

var binCode = map[string]biscuit.BinaryOp{
	"<": biscuit.BinaryLessThan, "<=": biscuit.BinaryLessOrEqual, ">": biscuit.BinaryGreaterThan,
	">=": biscuit.BinaryGreaterOrEqual, "==": biscuit.BinaryEqual, "contains": biscuit.BinaryContains,
	"starts_with": biscuit.BinaryPrefix, "ends_with": biscuit.BinarySuffix, "matches": biscuit.BinaryRegex,
	"+": biscuit.BinaryAdd, "-": biscuit.BinarySub, "*": biscuit.BinaryMul, "/": biscuit.BinaryDiv,
	"&&": biscuit.BinaryAnd, "||": biscuit.BinaryOr, "intersection": biscuit.BinaryIntersection,
	"union": biscuit.BinaryUnion,
}
var unCode = map[string]biscuit.UnaryOp{"!": biscuit.UnaryNegate, "()": biscuit.UnaryParens, "length": biscuit.UnaryLength}

func ToOps(ops []m.Op) biscuit.Expression {
	out := make(biscuit.Expression, 0, len(ops))
	for _, o := range ops {
		switch o.Kind {
		case "val":
			out = append(out, biscuit.Value{Term: ToTerm(*o.Val)})
		case "un":
			out = append(out, unCode[o.Code])
		case "bin":
			out = append(out, binCode[o.Code])
		}
	}
	return out
}

func ToExpr(e *m.Expr) biscuit.Expression { return ToOps(e.Postfix()) }

func ToRule(r m.Rule) biscuit.Rule {
	out := biscuit.Rule{Head: ToPred(r.Head)}
	out.Body = make([]biscuit.Predicate, 0, len(r.Body))
	for _, p := range r.Body {
		out.Body = append(out.Body, ToPred(p))
	}
	out.Expressions = make([]biscuit.Expression, 0, len(r.Exprs))
	for _, e := range r.Exprs {
		out.Expressions = append(out.Expressions, ToExpr(e))
	}
	return out
}

func ToCheck(c m.Check) biscuit.Check {
	out := biscuit.Check{Queries: make([]biscuit.Rule, 0, len(c.Queries))}
	for _, q := range c.Queries {
		out.Queries = append(out.Queries, ToRule(q))
	}
	return out
}

func ToPolicy(p m.Policy) biscuit.Policy {
	out := biscuit.Policy{Kind: biscuit.PolicyKindDeny, Queries: make([]biscuit.Rule, 0, len(p.Queries))}
	if p.Allow {
		out.Kind = biscuit.PolicyKindAllow
	}
	for _, q := range p.Queries {
		out.Queries = append(out.Queries, ToRule(q))
	}
	return out
}

// ---------- library -> model ----------

func LiftTerm(t biscuit.Term) (m.Term, error) {
	switch v := t.(type) {
	case biscuit.Integer:
		return m.Int(int64(v)), nil
	case biscuit.String:
		return m.Str(string(v)), nil
	case biscuit.Date:
		return m.Date(uint64(time.Time(v).Unix())), nil
	case biscuit.Bytes:
		return m.Bytes([]byte(v)), nil
	case biscuit.Bool:
		return m.Bool(bool(v)), nil
	case biscuit.Variable:
		return m.Var(string(v)), nil
	case biscuit.Set:
		es := make([]m.Term, 0, len(v))
		for _, e := range v {
			le, err := LiftTerm(e)
			if err != nil {
				return m.Term{}, err
			}
			es = append(es, le)
		}
		return m.Term{K: m.KSet, Set: m.CanonSet(es)}, nil
	case nil:
		return m.Term{}, errors.New("nil term")
	}
	return m.Term{}, fmt.Errorf("unknown term %T", t)
}

func LiftPred(p biscuit.Predicate) (m.Pred, error) {
	out := m.Pred{Name: p.Name}
	for _, t := range p.IDs {
		lt, err := LiftTerm(t)
		if err != nil {
			return out, err
		}
		out.Terms = append(out.Terms, lt)
	}
	return out, nil
}

var binName = func() map[biscuit.BinaryOp]string {
	o := map[biscuit.BinaryOp]string{}
	for k, v := range binCode {
		o[v] = k
	}
	return o
}()
var unName = func() map[biscuit.UnaryOp]string {
	o := map[biscuit.UnaryOp]string{}
	for k, v := range unCode {
		o[v] = k
	}
	return o
}()

func LiftOps(e biscuit.Expression) ([]m.Op, error) {
	var out []m.Op
	for _, op := range e {
		switch v := op.(type) {
		case biscuit.Value:
			t, err := LiftTerm(v.Term)
			if err != nil {
				return nil, err
			}
			out = append(out, m.Op{Kind: "val", Val: &t})
		case biscuit.UnaryOp:
			n, ok := unName[v]
			if !ok {
				return nil, fmt.Errorf("unknown unary op %d", v)
			}
			out = append(out, m.Op{Kind: "un", Code: n})
		case biscuit.BinaryOp:
			n, ok := binName[v]
			if !ok {
				return nil, fmt.Errorf("unknown binary op %d", v)
			}
			out = append(out, m.Op{Kind: "bin", Code: n})
		default:
			return nil, fmt.Errorf("unknown op %T", op)
		}
	}
	return out, nil
}

// LiftedRule keeps expressions in postfix form (the library's representation).
type LiftedRule struct {
	Head  m.Pred
	Body  []m.Pred
	Exprs [][]m.Op
}

func (r LiftedRule) Key() string {
	var parts []string
	for _, p := range r.Body {
		parts = append(parts, p.Key())
	}
	for _, e := range r.Exprs {
		parts = append(parts, "["+m.OpsKey(e)+"]")
	}
	return r.Head.Key() + "<-" + strings.Join(parts, ",")
}

func RuleKeyPostfix(r m.Rule) string {
	lr := LiftedRule{Head: r.Head, Body: r.Body}
	for _, e := range r.Exprs {
		lr.Exprs = append(lr.Exprs, e.Postfix())
	}
	return lr.Key()
}

func LiftRule(r biscuit.Rule) (LiftedRule, error) {
	var out LiftedRule
	var err error
	if out.Head, err = LiftPred(r.Head); err != nil {
		return out, err
	}
	for _, p := range r.Body {
		lp, err := LiftPred(p)
		if err != nil {
			return out, err
		}
		out.Body = append(out.Body, lp)
	}
	for _, e := range r.Expressions {
		lo, err := LiftOps(e)
		if err != nil {
			return out, err
		}
		out.Exprs = append(out.Exprs, lo)
	}
	return out, nil
}

func LiftFactSet(fs biscuit.FactSet) ([]m.Pred, error) {
	out := make([]m.Pred, 0, len(fs))
	for _, f := range fs {
		p, err := LiftPred(f.Predicate)
		if err != nil {
			return nil, err
		}
		out = append(out, p)
	}
	return out, nil
}

// ---------- tokens ----------

const LongDuration = 30 * time.Second

func WorldOpts() biscuit.AuthorizerOption {
	return biscuit.WithWorldOptions(datalog.WithMaxDuration(LongDuration), datalog.WithMaxFacts(100000), datalog.WithMaxIterations(10000))
}

// deliveryOf picks, as a pure function of the content, how it is handed to the
// library: element by element, or as one parsed value (AddBlock / AddAuthorizer).
// Every check that builds tokens or fills authorizers thereby covers both ways.
func deliveryOf(key string) int {
	h := fnv.New32a()
	h.Write([]byte(key))
	return int(h.Sum32() % 3)
}

func toParsedBlock(facts []m.Pred, rules []m.Rule, checks []m.Check) biscuit.ParsedBlock {
	pb := biscuit.ParsedBlock{}
	for _, f := range facts {
		pb.Facts = append(pb.Facts, ToFact(f))
	}
	for _, r := range rules {
		pb.Rules = append(pb.Rules, ToRule(r))
	}
	for _, c := range checks {
		pb.Checks = append(pb.Checks, ToCheck(c))
	}
	return pb
}

func AddBlockTo(bb interface {
	AddFact(biscuit.Fact) error
	AddRule(biscuit.Rule) error
	AddCheck(biscuit.Check) error
	SetContext(string)
}, b m.Block) error {
	if whole, ok := bb.(interface {
		AddBlock(biscuit.ParsedBlock) error
	}); ok && deliveryOf(b.Key()) == 0 {
		if err := whole.AddBlock(toParsedBlock(b.Facts, b.Rules, b.Checks)); err != nil {
			return err
		}
		if b.Context != "" {
			bb.SetContext(b.Context)
		}
		return nil
	}
	for _, f := range b.Facts {
		if err := bb.AddFact(ToFact(f)); err != nil {
			return err
		}
	}
	for _, r := range b.Rules {
		if err := bb.AddRule(ToRule(r)); err != nil {
			return err
		}
	}
	for _, c := range b.Checks {
		if err := bb.AddCheck(ToCheck(c)); err != nil {
			return err
		}
	}
	if b.Context != "" {
		bb.SetContext(b.Context)
	}
	return nil
}

type authorityAdapter struct{ biscuit.Builder }

func (a authorityAdapter) AddFact(f biscuit.Fact) error   { return a.AddAuthorityFact(f) }
func (a authorityAdapter) AddRule(r biscuit.Rule) error   { return a.AddAuthorityRule(r) }
func (a authorityAdapter) AddCheck(c biscuit.Check) error { return a.AddAuthorityCheck(c) }

// BuildAuthority builds a one-block token.
func BuildAuthority(priv ed25519.PrivateKey, rng io.Reader, b m.Block, keyID *uint32) (*biscuit.Biscuit, error) {
	return BuildAuthorityBase(priv, rng, b, keyID, nil)
}

// BuildAuthorityBase builds a one-block token over a custom base symbol table
// (biscuit.WithSymbols) when base is non-empty.
func BuildAuthorityBase(priv ed25519.PrivateKey, rng io.Reader, b m.Block, keyID *uint32, base []string) (*biscuit.Biscuit, error) {
	var builder biscuit.Builder
	// the caller's base table, with spare capacity so that an append through it would be visible
	st := datalog.SymbolTable(append(make([]string, 0, len(base)+4), base...))
	switch {
	case keyID != nil && len(base) > 0:
		builder = biscuit.NewBuilder(priv, biscuit.WithRNG(rng), biscuit.WithRootKeyID(*keyID), biscuit.WithSymbols(&st))
	case keyID != nil && *keyID%2 == 1:
		// the order in which options are given must not matter: odd ids are given before the
		// random source, even ids after it
		builder = biscuit.NewBuilder(priv, biscuit.WithRootKeyID(*keyID), biscuit.WithRNG(rng))
	case keyID != nil:
		builder = biscuit.NewBuilder(priv, biscuit.WithRNG(rng), biscuit.WithRootKeyID(*keyID))
	case len(base) > 0:
		builder = biscuit.NewBuilder(priv, biscuit.WithRNG(rng), biscuit.WithSymbols(&st))
	default:
		builder = biscuit.NewBuilder(priv, biscuit.WithRNG(rng))
	}
	if err := AddBlockTo(authorityAdapter{builder}, b); err != nil {
		return nil, err
	}
	tok, err := builder.Build()
	// the table handed to WithSymbols stays the caller's: same strings, nothing written behind its end
	full := st[:cap(st)]
	if len(st) != len(base) {
		return nil, fmt.Errorf("the builder changed the caller's base symbol table: %d strings, %d were supplied", len(st), len(base))
	}
	for i := range full {
		if (i < len(base) && full[i] != base[i]) || (i >= len(base) && full[i] != "") {
			return nil, fmt.Errorf("the builder wrote %q into the caller's base symbol table at position %d", full[i], i)
		}
	}
	return tok, err
}

// UnmarshalBase reads a token that was composed over a custom base symbol table.
func UnmarshalBase(data []byte, base []string) (*biscuit.Biscuit, error) {
	if len(base) == 0 {
		return biscuit.Unmarshal(data)
	}
	st := datalog.SymbolTable(append([]string{}, base...))
	return (&biscuit.Unmarshaler{Symbols: &st}).Unmarshal(data)
}

// AppendBlock attenuates tok with block b.
func AppendBlock(tok *biscuit.Biscuit, rng io.Reader, b m.Block) (*biscuit.Biscuit, error) {
	bb := tok.CreateBlock()
	if err := AddBlockTo(bb, b); err != nil {
		return nil, err
	}
	return tok.Append(rng, bb.Build())
}

// BuildToken builds authority + later blocks. rngKey seeds the key stream.
func BuildToken(rootSeed uint64, rngKey uint64, t m.Token) (*biscuit.Biscuit, ed25519.PublicKey, error) {
	pub, priv := RootKey(rootSeed)
	rng := NewDetRand(rngKey)
	tok, err := BuildAuthority(priv, rng, t.Blocks[0], nil)
	if err != nil {
		return nil, pub, err
	}
	for _, b := range t.Blocks[1:] {
		tok, err = AppendBlock(tok, rng, b)
		if err != nil {
			return nil, pub, err
		}
	}
	return tok, pub, nil
}

// DedupFacts removes duplicate facts inside each block (builders refuse them).
func DedupFacts(fs []m.Pred) []m.Pred {
	seen := map[string]bool{}
	var out []m.Pred
	for _, f := range fs {
		if k := f.Key(); !seen[k] {
			seen[k] = true
			out = append(out, f)
		}
	}
	return out
}

// ToParsedAuthorizer builds the value a caller would get from the parser for az.
func ToParsedAuthorizer(az m.Authz) biscuit.ParsedAuthorizer {
	pa := biscuit.ParsedAuthorizer{Block: toParsedBlock(az.Facts, az.Rules, az.Checks)}
	for _, p := range az.Policies {
		pa.Policies = append(pa.Policies, ToPolicy(p))
	}
	return pa
}

func AddAuthz(a biscuit.Authorizer, az m.Authz) {
	if h := fnv.New32a(); len(az.Policies) >= 2 {
		h.Write([]byte(az.Key()))
		if h.Sum32()%5 == 4 {
			// policies arrive through two entry points: the first ones one by one, the others (with
			// the rest of the content) as one parsed value; insertion order is the order of arrival
			k := (len(az.Policies) + 1) / 2
			for _, p := range az.Policies[:k] {
				a.AddPolicy(ToPolicy(p))
			}
			rest := az
			rest.Policies = az.Policies[k:]
			a.AddAuthorizer(ToParsedAuthorizer(rest))
			return
		}
	}
	switch deliveryOf(az.Key()) {
	case 0:
		pa := biscuit.ParsedAuthorizer{Block: toParsedBlock(az.Facts, az.Rules, az.Checks)}
		for _, p := range az.Policies {
			pa.Policies = append(pa.Policies, ToPolicy(p))
		}
		a.AddAuthorizer(pa)
		return
	case 1:
		a.AddBlock(toParsedBlock(az.Facts, az.Rules, az.Checks))
		for _, p := range az.Policies {
			a.AddPolicy(ToPolicy(p))
		}
		return
	}
	for _, f := range az.Facts {
		a.AddFact(ToFact(f))
	}
	for _, r := range az.Rules {
		a.AddRule(ToRule(r))
	}
	for _, c := range az.Checks {
		a.AddCheck(ToCheck(c))
	}
	for _, p := range az.Policies {
		a.AddPolicy(ToPolicy(p))
	}
}

// NewAuthorizer verifies tok under pub and loads az.
func NewAuthorizer(tok *biscuit.Biscuit, pub ed25519.PublicKey, az m.Authz) (biscuit.Authorizer, error) {
	a, err := tok.AuthorizerFor(biscuit.WithSingularRootPublicKey(pub), WorldOpts())
	if err != nil {
		return nil, err
	}
	AddAuthz(a, az)
	return a, nil
}

// ---------- outcomes ----------

var failedCheckRe = regexp.MustCompile(`failed to verify (block #?\d+ )?check #\d+`)

type Outcome struct {
	Class        string
	FailedChecks int
	Err          string
}

func (o Outcome) String() string {
	if o.Class == ref.Checks {
		return fmt.Sprintf("%s(%d)", o.Class, o.FailedChecks)
	}
	return o.Class
}

func IsLimit(err error) bool {
	return errors.Is(err, datalog.ErrWorldRunLimitMaxFacts) ||
		errors.Is(err, datalog.ErrWorldRunLimitMaxIterations) ||
		errors.Is(err, datalog.ErrWorldRunLimitTimeout)
}

// Classify maps an Authorize error to an outcome class.
func Classify(err error) Outcome {
	switch {
	case err == nil:
		return Outcome{Class: ref.Allow}
	case errors.Is(err, biscuit.ErrPolicyDenied):
		return Outcome{Class: ref.Deny, Err: err.Error()}
	case errors.Is(err, biscuit.ErrNoMatchingPolicy):
		return Outcome{Class: ref.NoMatch, Err: err.Error()}
	case IsLimit(err):
		return Outcome{Class: ref.Limit, Err: err.Error()}
	}
	msg := err.Error()
	// the library has no sentinel for failed checks: they are recognised by the error text
	// ("biscuit: verification failed: failed to verify [block #i] check #j: ..."), tolerantly
	if strings.HasPrefix(msg, "biscuit: verification failed: failed to verify") ||
		(strings.Contains(msg, "verification failed") && strings.Contains(msg, "check")) {
		return Outcome{Class: ref.Checks, FailedChecks: len(failedCheckRe.FindAllString(msg, -1)), Err: msg}
	}
	return Outcome{Class: ref.Error, Err: msg}
}

// Authorize runs Authorize and classifies, converting a panic on the calling
// goroutine into the Panic class.
func Authorize(a biscuit.Authorizer) (o Outcome) {
	defer func() {
		if p := recover(); p != nil {
			o = Outcome{Class: ref.Panic, Err: fmt.Sprint(p)}
		}
	}()
	return Classify(a.Authorize())
}

// QueryKey returns the canonical key of a query result set (or an error marker).
func QueryKey(a biscuit.Authorizer, q m.Rule) string {
	fs, err := a.Query(ToRule(q))
	if err != nil {
		if IsLimit(err) {
			return "!limit"
		}
		return "!error"
	}
	ps, err := LiftFactSet(fs)
	if err != nil {
		return "!lift:" + err.Error()
	}
	return m.FactSetKey(ps)
}
