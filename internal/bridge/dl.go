package bridge

import (
	"fmt"

	"github.com/biscuit-auth/biscuit-go/v2/datalog"

	m "verif/internal/model"
)

// ---------- model -> datalog package values ----------

func DLTerm(t m.Term, syms *datalog.SymbolTable) datalog.Term {
	switch t.K {
	case m.KInt:
		return datalog.Integer(t.I)
	case m.KStr:
		return syms.Insert(t.S)
	case m.KDate:
		return datalog.Date(t.D)
	case m.KBytes:
		return datalog.Bytes(append([]byte{}, t.B...))
	case m.KBool:
		return datalog.Bool(t.Bo)
	case m.KVar:
		return datalog.Variable(syms.Insert(t.S))
	case m.KSet:
		s := make(datalog.Set, 0, len(t.Set))
		for _, e := range t.Set {
			s = append(s, DLTerm(e, syms))
		}
		return s
	}
	panic("bridge: bad term kind")
}

func DLPred(p m.Pred, syms *datalog.SymbolTable) datalog.Predicate {
	out := datalog.Predicate{Name: syms.Insert(p.Name)}
	for _, t := range p.Terms {
		out.Terms = append(out.Terms, DLTerm(t, syms))
	}
	return out
}

var dlBin = map[string]datalog.BinaryOpFunc{
	"<": datalog.LessThan{}, "<=": datalog.LessOrEqual{}, ">": datalog.GreaterThan{}, ">=": datalog.GreaterOrEqual{},
	"==": datalog.Equal{}, "contains": datalog.Contains{}, "starts_with": datalog.Prefix{}, "ends_with": datalog.Suffix{},
	"matches": datalog.Regex{}, "+": datalog.Add{}, "-": datalog.Sub{}, "*": datalog.Mul{}, "/": datalog.Div{},
	"&&": datalog.And{}, "||": datalog.Or{}, "intersection": datalog.Intersection{}, "union": datalog.Union{},
}
var dlUn = map[string]datalog.UnaryOpFunc{"!": datalog.Negate{}, "()": datalog.Parens{}, "length": datalog.Length{}}

func DLOps(ops []m.Op, syms *datalog.SymbolTable) datalog.Expression {
	out := make(datalog.Expression, 0, len(ops))
	for _, o := range ops {
		switch o.Kind {
		case "val":
			out = append(out, datalog.Value{ID: DLTerm(*o.Val, syms)})
		case "un":
			out = append(out, datalog.UnaryOp{UnaryOpFunc: dlUn[o.Code]})
		case "bin":
			out = append(out, datalog.BinaryOp{BinaryOpFunc: dlBin[o.Code]})
		}
	}
	return out
}

func DLRule(r m.Rule, syms *datalog.SymbolTable) datalog.Rule {
	out := datalog.Rule{Head: DLPred(r.Head, syms)}
	for _, p := range r.Body {
		out.Body = append(out.Body, DLPred(p, syms))
	}
	for _, e := range r.Exprs {
		out.Expressions = append(out.Expressions, DLOps(e.Postfix(), syms))
	}
	return out
}

// ---------- datalog package values -> model ----------

func LiftDLTerm(t datalog.Term, syms *datalog.SymbolTable) (m.Term, error) {
	switch v := t.(type) {
	case datalog.Integer:
		return m.Int(int64(v)), nil
	case datalog.String:
		return m.Str(syms.Str(v)), nil
	case datalog.Date:
		return m.Date(uint64(v)), nil
	case datalog.Bytes:
		return m.Bytes([]byte(v)), nil
	case datalog.Bool:
		return m.Bool(bool(v)), nil
	case datalog.Variable:
		return m.Var(syms.Var(v)), nil
	case datalog.Set:
		es := make([]m.Term, 0, len(v))
		for _, e := range v {
			le, err := LiftDLTerm(e, syms)
			if err != nil {
				return m.Term{}, err
			}
			es = append(es, le)
		}
		return m.Term{K: m.KSet, Set: m.CanonSet(es)}, nil
	}
	return m.Term{}, fmt.Errorf("unknown datalog term %T", t)
}

func LiftDLFacts(fs *datalog.FactSet, syms *datalog.SymbolTable) ([]m.Pred, error) {
	out := make([]m.Pred, 0, len(*fs))
	for _, f := range *fs {
		p := m.Pred{Name: syms.Str(f.Predicate.Name)}
		for _, t := range f.Predicate.Terms {
			lt, err := LiftDLTerm(t, syms)
			if err != nil {
				return nil, err
			}
			p.Terms = append(p.Terms, lt)
		}
		out = append(out, p)
	}
	return out, nil
}
