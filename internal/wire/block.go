package wire

import (
	"fmt"

	m "verif/internal/model"
)

// ---- block content with raw symbol indexes ----

type TKind int

const (
	TVar TKind = iota + 1 // field numbers of TermV2's oneof
	TInt
	TStr
	TDate
	TBytes
	TBool
	TSet
	TNone // writer only: a term with no content
)

type Term struct {
	K   TKind
	U   uint64 // variable / string index / date
	I   int64
	B   []byte
	Bo  bool
	Set []Term
}

type Pred struct {
	Name       uint64
	NameAbsent bool // writer only
	Terms      []Term
}

type Op struct {
	Kind int // 1 value, 2 unary, 3 binary; 0 = writer only: empty op
	Val  Term
	Code uint64
}

type Rule struct {
	Head       Pred
	HeadAbsent bool // writer only
	Body       []Pred
	Exprs      [][]Op
}

type Check struct{ Queries []Rule }

type Policy struct {
	Queries    []Rule
	Kind       uint64
	KindAbsent bool
}

type Block struct {
	Symbols        []string
	Context        *string
	Version        *uint32
	Facts          []Pred
	Rules          []Rule
	Checks         []Check
	FactPredAbsent bool // writer only: FactV2 without predicate
}

const (
	unaryKinds  = 3  // Negate, Parens, Length
	binaryKinds = 17 // LessThan .. Union
)

func decodeTerm(b []byte, depth int) (Term, error) {
	fs, err := Parse(b)
	if err != nil {
		return Term{}, err
	}
	var t Term
	set := false
	for _, f := range fs { // oneof: last member wins
		switch {
		case f.Num == 1 && f.WT == WTVarint:
			t, set = Term{K: TVar, U: uint64(uint32(f.V))}, true
		case f.Num == 2 && f.WT == WTVarint:
			t, set = Term{K: TInt, I: int64(f.V)}, true
		case f.Num == 3 && f.WT == WTVarint:
			t, set = Term{K: TStr, U: f.V}, true
		case f.Num == 4 && f.WT == WTVarint:
			t, set = Term{K: TDate, U: f.V}, true
		case f.Num == 5 && f.WT == WTBytes:
			t, set = Term{K: TBytes, B: f.B}, true
		case f.Num == 6 && f.WT == WTVarint:
			t, set = Term{K: TBool, Bo: f.V != 0}, true
		case f.Num == 7 && f.WT == WTBytes:
			sfs, err := Parse(f.B)
			if err != nil {
				return Term{}, err
			}
			st := Term{K: TSet}
			for _, eb := range allBytes(sfs, 1) {
				if depth > 0 {
					return Term{}, malformed("nested set")
				}
				e, err := decodeTerm(eb, depth+1)
				if err != nil {
					return Term{}, err
				}
				st.Set = append(st.Set, e)
			}
			t, set = st, true
		}
	}
	if !set {
		return Term{}, malformed("term without content")
	}
	if t.K == TSet {
		if len(t.Set) == 0 {
			return Term{}, malformed("empty set")
		}
		k := t.Set[0].K
		if k == TVar || k == TSet {
			return Term{}, malformed("set of variables or sets")
		}
		for _, e := range t.Set {
			if e.K != k {
				return Term{}, malformed("heterogeneous set")
			}
		}
	}
	return t, nil
}

func decodePred(b []byte) (Pred, error) {
	fs, err := Parse(b)
	if err != nil {
		return Pred{}, err
	}
	var p Pred
	n, ok := lastVarint(fs, 1)
	if !ok {
		return p, malformed("predicate without name")
	}
	p.Name = n
	for _, tb := range allBytes(fs, 2) {
		t, err := decodeTerm(tb, 0)
		if err != nil {
			return p, err
		}
		p.Terms = append(p.Terms, t)
	}
	return p, nil
}

func decodeOps(b []byte) ([]Op, error) {
	fs, err := Parse(b)
	if err != nil {
		return nil, err
	}
	var out []Op
	for _, ob := range allBytes(fs, 1) {
		ofs, err := Parse(ob)
		if err != nil {
			return nil, err
		}
		var op Op
		for _, f := range ofs { // oneof
			if f.WT != WTBytes {
				continue
			}
			switch f.Num {
			case 1:
				t, err := decodeTerm(f.B, 0)
				if err != nil {
					return nil, err
				}
				op = Op{Kind: 1, Val: t}
			case 2, 3:
				kfs, err := Parse(f.B)
				if err != nil {
					return nil, err
				}
				k, ok := lastVarint(kfs, 1)
				lim := uint64(unaryKinds)
				if f.Num == 3 {
					lim = binaryKinds
				}
				if !ok || uint64(uint32(k)) >= lim {
					return nil, malformed("operator without a known kind")
				}
				op = Op{Kind: f.Num, Code: uint64(uint32(k))}
			}
		}
		if op.Kind == 0 {
			return nil, malformed("op without content")
		}
		out = append(out, op)
	}
	return out, nil
}

func decodeRule(b []byte) (Rule, error) {
	fs, err := Parse(b)
	if err != nil {
		return Rule{}, err
	}
	var r Rule
	hb, ok := mergedMsg(fs, 1)
	if !ok {
		return r, malformed("rule without head")
	}
	if r.Head, err = decodePred(hb); err != nil {
		return r, err
	}
	for _, pb := range allBytes(fs, 2) {
		p, err := decodePred(pb)
		if err != nil {
			return r, err
		}
		r.Body = append(r.Body, p)
	}
	for _, eb := range allBytes(fs, 3) {
		ops, err := decodeOps(eb)
		if err != nil {
			return r, err
		}
		r.Exprs = append(r.Exprs, ops)
	}
	return r, nil
}

func decodeCheck(b []byte) (Check, error) {
	fs, err := Parse(b)
	if err != nil {
		return Check{}, err
	}
	var c Check
	for _, qb := range allBytes(fs, 1) {
		q, err := decodeRule(qb)
		if err != nil {
			return c, err
		}
		c.Queries = append(c.Queries, q)
	}
	return c, nil
}

// DecodeBlock reads a Block message (raw indexes, no symbol resolution).
func DecodeBlock(b []byte) (*Block, error) {
	fs, err := Parse(b)
	if err != nil {
		return nil, err
	}
	out := &Block{}
	for _, s := range allBytes(fs, 1) {
		out.Symbols = append(out.Symbols, string(s))
	}
	if c, ok := lastBytes(fs, 2); ok {
		s := string(c)
		out.Context = &s
	}
	if v, ok := lastVarint(fs, 3); ok {
		u := uint32(v)
		out.Version = &u
	}
	for _, fb := range allBytes(fs, 4) {
		ffs, err := Parse(fb)
		if err != nil {
			return nil, err
		}
		pb, ok := mergedMsg(ffs, 1)
		if !ok {
			return nil, malformed("fact without predicate")
		}
		p, err := decodePred(pb)
		if err != nil {
			return nil, err
		}
		out.Facts = append(out.Facts, p)
	}
	for _, rb := range allBytes(fs, 5) {
		r, err := decodeRule(rb)
		if err != nil {
			return nil, err
		}
		out.Rules = append(out.Rules, r)
	}
	for _, cb := range allBytes(fs, 6) {
		c, err := decodeCheck(cb)
		if err != nil {
			return nil, err
		}
		out.Checks = append(out.Checks, c)
	}
	return out, nil
}

// ---- writer ----

func (t Term) enc() *Enc {
	e := &Enc{}
	switch t.K {
	case TVar:
		e.Varint(1, t.U)
	case TInt:
		e.Varint(2, uint64(t.I))
	case TStr:
		e.Varint(3, t.U)
	case TDate:
		e.Varint(4, t.U)
	case TBytes:
		e.Bytes(5, t.B)
	case TBool:
		v := uint64(0)
		if t.Bo {
			v = 1
		}
		e.Varint(6, v)
	case TSet:
		s := &Enc{}
		for _, x := range t.Set {
			s.Msg(1, x.enc())
		}
		e.Msg(7, s)
	}
	return e
}

func (p Pred) enc() *Enc {
	e := &Enc{}
	if !p.NameAbsent {
		e.Varint(1, p.Name)
	}
	for _, t := range p.Terms {
		e.Msg(2, t.enc())
	}
	return e
}

func encOps(ops []Op) *Enc {
	e := &Enc{}
	for _, o := range ops {
		oe := &Enc{}
		switch o.Kind {
		case 1:
			oe.Msg(1, o.Val.enc())
		case 2, 3:
			k := &Enc{}
			k.Varint(1, o.Code)
			oe.Msg(o.Kind, k)
		}
		e.Msg(1, oe)
	}
	return e
}

func (r Rule) enc() *Enc {
	e := &Enc{}
	if !r.HeadAbsent {
		e.Msg(1, r.Head.enc())
	}
	for _, p := range r.Body {
		e.Msg(2, p.enc())
	}
	for _, x := range r.Exprs {
		e.Msg(3, encOps(x))
	}
	return e
}

func (c Check) enc() *Enc {
	e := &Enc{}
	for _, q := range c.Queries {
		e.Msg(1, q.enc())
	}
	return e
}

// Encode writes the block in canonical field order.
func (b *Block) Encode() []byte {
	e := &Enc{}
	for _, s := range b.Symbols {
		e.Bytes(1, []byte(s))
	}
	if b.Context != nil {
		e.Bytes(2, []byte(*b.Context))
	}
	if b.Version != nil {
		e.Varint(3, uint64(*b.Version))
	}
	for _, f := range b.Facts {
		fe := &Enc{}
		if !b.FactPredAbsent {
			fe.Msg(1, f.enc())
		}
		e.Msg(4, fe)
	}
	for _, r := range b.Rules {
		e.Msg(5, r.enc())
	}
	for _, c := range b.Checks {
		e.Msg(6, c.enc())
	}
	return e.Buf
}

// ---- symbols ----

// DefaultSymbols is this package's own copy of the default table.
var DefaultSymbols = []string{
	"read", "write", "resource", "operation", "right", "time", "role", "owner", "tenant", "namespace",
	"user", "team", "service", "admin", "email", "group", "member", "ip_address", "client", "client_ip",
	"domain", "path", "version", "cluster", "node", "hostname", "nonce", "query",
}

const Offset = 1024

// Table is the cumulative symbol table of a token (block tables in chain order).
type Table struct{ Syms []string }

func (t *Table) Lookup(i uint64) (string, bool) {
	if i < Offset {
		if i < uint64(len(DefaultSymbols)) {
			return DefaultSymbols[i], true
		}
		return "", false
	}
	j := i - Offset
	if j < uint64(len(t.Syms)) {
		return t.Syms[j], true
	}
	return "", false
}

// Index returns the index of s, or false.
func (t *Table) Index(s string) (uint64, bool) {
	for i, d := range DefaultSymbols {
		if d == s {
			return uint64(i), true
		}
	}
	for i, d := range t.Syms {
		if d == s {
			return uint64(Offset + i), true
		}
	}
	return 0, false
}

// Intern returns the index of s, appending it when new; added reports whether
// the symbol was appended.
func (t *Table) Intern(s string) (uint64, bool) {
	if i, ok := t.Index(s); ok {
		return i, false
	}
	t.Syms = append(t.Syms, s)
	return uint64(Offset + len(t.Syms) - 1), true
}

// ---- resolution: raw block -> model (postfix expressions) ----

func (t *Table) term(x Term) (m.Term, error) {
	switch x.K {
	case TVar:
		s, ok := t.Lookup(x.U)
		if !ok {
			return m.Term{}, fmt.Errorf("variable index %d does not resolve", x.U)
		}
		return m.Var(s), nil
	case TInt:
		return m.Int(x.I), nil
	case TStr:
		s, ok := t.Lookup(x.U)
		if !ok {
			return m.Term{}, fmt.Errorf("string index %d does not resolve", x.U)
		}
		return m.Str(s), nil
	case TDate:
		return m.Date(x.U), nil
	case TBytes:
		return m.Bytes(x.B), nil
	case TBool:
		return m.Bool(x.Bo), nil
	case TSet:
		var es []m.Term
		for _, e := range x.Set {
			me, err := t.term(e)
			if err != nil {
				return m.Term{}, err
			}
			es = append(es, me)
		}
		// as on the wire: order and repeated elements are kept (Key() compares as a multiset)
		return m.Term{K: m.KSet, Set: es}, nil
	}
	return m.Term{}, fmt.Errorf("unknown term kind %d", x.K)
}

func (t *Table) pred(p Pred) (m.Pred, error) {
	n, ok := t.Lookup(p.Name)
	if !ok {
		return m.Pred{}, fmt.Errorf("predicate name index %d does not resolve", p.Name)
	}
	out := m.Pred{Name: n}
	for _, x := range p.Terms {
		mt, err := t.term(x)
		if err != nil {
			return out, err
		}
		out.Terms = append(out.Terms, mt)
	}
	return out, nil
}

var UnaryNames = []string{"!", "()", "length"}
var BinaryNames = []string{"<", ">", "<=", ">=", "==", "contains", "starts_with", "ends_with", "matches",
	"+", "-", "*", "/", "&&", "||", "intersection", "union"}

func (t *Table) rule(r Rule) (m.PRule, error) {
	var out m.PRule
	var err error
	if out.Head, err = t.pred(r.Head); err != nil {
		return out, err
	}
	for _, p := range r.Body {
		mp, err := t.pred(p)
		if err != nil {
			return out, err
		}
		out.Body = append(out.Body, mp)
	}
	for _, ops := range r.Exprs {
		var mo []m.Op
		for _, o := range ops {
			switch o.Kind {
			case 1:
				v, err := t.term(o.Val)
				if err != nil {
					return out, err
				}
				mo = append(mo, m.Op{Kind: "val", Val: &v})
			case 2:
				mo = append(mo, m.Op{Kind: "un", Code: UnaryNames[o.Code]})
			case 3:
				mo = append(mo, m.Op{Kind: "bin", Code: BinaryNames[o.Code]})
			}
		}
		out.Exprs = append(out.Exprs, mo)
	}
	return out, nil
}

// Resolve turns a decoded block into model content, using the cumulative
// table (which must already include this block's own symbols).
func (t *Table) Resolve(b *Block) (m.PBlock, error) {
	var out m.PBlock
	if b.Context != nil {
		out.Context = *b.Context
	}
	if b.Version != nil {
		out.Version = *b.Version
	}
	out.Symbols = append([]string{}, b.Symbols...)
	for _, f := range b.Facts {
		p, err := t.pred(f)
		if err != nil {
			return out, err
		}
		out.Facts = append(out.Facts, p)
	}
	for _, r := range b.Rules {
		pr, err := t.rule(r)
		if err != nil {
			return out, err
		}
		out.Rules = append(out.Rules, pr)
	}
	for _, c := range b.Checks {
		var pc m.PCheck
		for _, q := range c.Queries {
			pr, err := t.rule(q)
			if err != nil {
				return out, err
			}
			pc.Queries = append(pc.Queries, pr)
		}
		out.Checks = append(out.Checks, pc)
	}
	return out, nil
}

// ---- model -> raw block (writer side), interning new symbols ----

type Interner struct {
	T     *Table
	Added []string // symbols appended while encoding the current block
}

func (in *Interner) sym(s string) uint64 {
	i, added := in.T.Intern(s)
	if added {
		in.Added = append(in.Added, s)
	}
	return i
}

func (in *Interner) Term(x m.Term) Term {
	switch x.K {
	case m.KVar:
		return Term{K: TVar, U: in.sym(x.S)}
	case m.KInt:
		return Term{K: TInt, I: x.I}
	case m.KStr:
		return Term{K: TStr, U: in.sym(x.S)}
	case m.KDate:
		return Term{K: TDate, U: x.D}
	case m.KBytes:
		return Term{K: TBytes, B: x.B}
	case m.KBool:
		return Term{K: TBool, Bo: x.Bo}
	case m.KSet:
		t := Term{K: TSet}
		for _, e := range x.Set {
			t.Set = append(t.Set, in.Term(e))
		}
		return t
	}
	return Term{K: TNone}
}

func (in *Interner) Pred(p m.Pred) Pred {
	out := Pred{Name: in.sym(p.Name)}
	for _, t := range p.Terms {
		out.Terms = append(out.Terms, in.Term(t))
	}
	return out
}

func indexOf(names []string, n string) uint64 {
	for i, x := range names {
		if x == n {
			return uint64(i)
		}
	}
	return 999
}

func (in *Interner) Ops(ops []m.Op) []Op {
	var out []Op
	for _, o := range ops {
		switch o.Kind {
		case "val":
			out = append(out, Op{Kind: 1, Val: in.Term(*o.Val)})
		case "un":
			out = append(out, Op{Kind: 2, Code: indexOf(UnaryNames, o.Code)})
		case "bin":
			out = append(out, Op{Kind: 3, Code: indexOf(BinaryNames, o.Code)})
		}
	}
	return out
}

func (in *Interner) Rule(r m.PRule) Rule {
	out := Rule{Head: in.Pred(r.Head)}
	for _, p := range r.Body {
		out.Body = append(out.Body, in.Pred(p))
	}
	for _, e := range r.Exprs {
		out.Exprs = append(out.Exprs, in.Ops(e))
	}
	return out
}

// Block encodes model content as a raw block whose table holds exactly the
// symbols that were new.
func (in *Interner) Block(b m.PBlock) *Block {
	in.Added = nil
	out := &Block{}
	for _, f := range b.Facts {
		out.Facts = append(out.Facts, in.Pred(f))
	}
	for _, r := range b.Rules {
		out.Rules = append(out.Rules, in.Rule(r))
	}
	for _, c := range b.Checks {
		var wc Check
		for _, q := range c.Queries {
			wc.Queries = append(wc.Queries, in.Rule(q))
		}
		out.Checks = append(out.Checks, wc)
	}
	out.Symbols = append([]string{}, in.Added...)
	ctx := b.Context
	out.Context = &ctx
	v := uint32(3)
	if b.Version != 0 {
		v = b.Version
	}
	out.Version = &v
	return out
}

// ---- AuthorizerPolicies (authorizer snapshot) ----

type Snapshot struct {
	Symbols  []string
	Version  *uint32
	Facts    []Pred
	Rules    []Rule
	Checks   []Check
	Policies []Policy
}

func (s *Snapshot) Encode() []byte {
	e := &Enc{}
	for _, x := range s.Symbols {
		e.Bytes(1, []byte(x))
	}
	if s.Version != nil {
		e.Varint(2, uint64(*s.Version))
	}
	for _, f := range s.Facts {
		fe := &Enc{}
		fe.Msg(1, f.enc())
		e.Msg(3, fe)
	}
	for _, r := range s.Rules {
		e.Msg(4, r.enc())
	}
	for _, c := range s.Checks {
		e.Msg(5, c.enc())
	}
	for _, p := range s.Policies {
		pe := &Enc{}
		for _, q := range p.Queries {
			pe.Msg(1, q.enc())
		}
		if !p.KindAbsent {
			pe.Varint(2, p.Kind)
		}
		e.Msg(6, pe)
	}
	return e.Buf
}

// DecodeSnapshot reads an AuthorizerPolicies message.
func DecodeSnapshot(b []byte) (*Snapshot, error) {
	fs, err := Parse(b)
	if err != nil {
		return nil, err
	}
	out := &Snapshot{}
	for _, s := range allBytes(fs, 1) {
		out.Symbols = append(out.Symbols, string(s))
	}
	if v, ok := lastVarint(fs, 2); ok {
		u := uint32(v)
		out.Version = &u
	}
	for _, fb := range allBytes(fs, 3) {
		ffs, err := Parse(fb)
		if err != nil {
			return nil, err
		}
		pb, ok := mergedMsg(ffs, 1)
		if !ok {
			return nil, malformed("fact without predicate")
		}
		p, err := decodePred(pb)
		if err != nil {
			return nil, err
		}
		out.Facts = append(out.Facts, p)
	}
	for _, rb := range allBytes(fs, 4) {
		r, err := decodeRule(rb)
		if err != nil {
			return nil, err
		}
		out.Rules = append(out.Rules, r)
	}
	for _, cb := range allBytes(fs, 5) {
		c, err := decodeCheck(cb)
		if err != nil {
			return nil, err
		}
		out.Checks = append(out.Checks, c)
	}
	for _, pb := range allBytes(fs, 6) {
		pfs, err := Parse(pb)
		if err != nil {
			return nil, err
		}
		var p Policy
		for _, qb := range allBytes(pfs, 1) {
			q, err := decodeRule(qb)
			if err != nil {
				return nil, err
			}
			p.Queries = append(p.Queries, q)
		}
		k, ok := lastVarint(pfs, 2)
		if !ok {
			return nil, malformed("policy without kind")
		}
		p.Kind = uint64(uint32(k))
		out.Policies = append(out.Policies, p)
	}
	return out, nil
}
