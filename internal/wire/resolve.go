package wire

import (
	"strings"

	m "verif/internal/model"
)

// SnapshotKey decodes an authorizer snapshot independently and returns a
// canonical description of its content (facts and rules as sets, checks and
// policies in order), resolved with the snapshot's own symbol table.
func SnapshotKey(data []byte) (string, error) {
	s, err := DecodeSnapshot(data)
	if err != nil {
		return "", err
	}
	t := &Table{Syms: s.Symbols}
	blk := &Block{Facts: s.Facts, Rules: s.Rules, Checks: s.Checks}
	pb, err := t.Resolve(blk)
	if err != nil {
		return "", err
	}
	var pols []string
	for _, p := range s.Policies {
		pp := m.PPolicy{Allow: p.Kind == 0}
		for _, q := range p.Queries {
			r, err := t.rule(q)
			if err != nil {
				return "", err
			}
			pp.Queries = append(pp.Queries, r)
		}
		pols = append(pols, pp.Key())
	}
	return pb.ContentKey() + "P{" + strings.Join(pols, ";") + "}", nil
}
