package wire

import (
	"errors"
	"fmt"
)

// ---- envelope: Biscuit, SignedBlock, PublicKey, Proof ----

type SignedBlock struct {
	Block     []byte
	Alg       uint64 // PublicKey.algorithm (0 = Ed25519)
	AlgAbsent bool   // writer only: omit the required field
	NextKey   []byte
	Signature []byte
}

type Proof struct {
	HasSecret bool
	Secret    []byte
	HasFinal  bool
	Final     []byte
}

type Biscuit struct {
	RootKeyID *uint32
	Authority SignedBlock
	Blocks    []SignedBlock
	Proof     Proof
}

var ErrMalformed = errors.New("wire: message does not follow the schema")

func malformed(format string, a ...any) error {
	return fmt.Errorf("%w: %s", ErrMalformed, fmt.Sprintf(format, a...))
}

func decodeSignedBlock(b []byte) (SignedBlock, error) {
	var sb SignedBlock
	fs, err := Parse(b)
	if err != nil {
		return sb, err
	}
	blk, ok := lastBytes(fs, 1)
	if !ok {
		return sb, malformed("signed block without block bytes")
	}
	sb.Block = blk
	nk, ok := mergedMsg(fs, 2)
	if !ok {
		return sb, malformed("signed block without next key")
	}
	kfs, err := Parse(nk)
	if err != nil {
		return sb, err
	}
	alg, ok := lastVarint(kfs, 1)
	// closed enum: only value 0 is known; anything else is treated as absent
	if !ok || uint32(alg) != 0 {
		return sb, malformed("public key without a known algorithm")
	}
	sb.Alg = uint64(uint32(alg))
	key, ok := lastBytes(kfs, 2)
	if !ok {
		return sb, malformed("public key without key bytes")
	}
	sb.NextKey = key
	sig, ok := lastBytes(fs, 3)
	if !ok {
		return sb, malformed("signed block without signature")
	}
	sb.Signature = sig
	return sb, nil
}

// DecodeBiscuit reads the envelope.
func DecodeBiscuit(b []byte) (*Biscuit, error) {
	fs, err := Parse(b)
	if err != nil {
		return nil, err
	}
	out := &Biscuit{}
	if v, ok := lastVarint(fs, 1); ok {
		id := uint32(v)
		out.RootKeyID = &id
	}
	auth, ok := mergedMsg(fs, 2)
	if !ok {
		return nil, malformed("no authority block")
	}
	if out.Authority, err = decodeSignedBlock(auth); err != nil {
		return nil, err
	}
	for _, bb := range allBytes(fs, 3) {
		sb, err := decodeSignedBlock(bb)
		if err != nil {
			return nil, err
		}
		out.Blocks = append(out.Blocks, sb)
	}
	pr, ok := mergedMsg(fs, 4)
	if !ok {
		return nil, malformed("no proof")
	}
	pfs, err := Parse(pr)
	if err != nil {
		return nil, err
	}
	// oneof: the last member on the wire wins
	for _, f := range pfs {
		if f.WT != WTBytes {
			continue
		}
		switch f.Num {
		case 1:
			out.Proof = Proof{HasSecret: true, Secret: f.B}
		case 2:
			out.Proof = Proof{HasFinal: true, Final: f.B}
		}
	}
	return out, nil
}

func (sb SignedBlock) enc() *Enc {
	e := &Enc{}
	e.Bytes(1, sb.Block)
	k := &Enc{}
	if !sb.AlgAbsent {
		k.Varint(1, sb.Alg)
	}
	k.Bytes(2, sb.NextKey)
	e.Msg(2, k)
	e.Bytes(3, sb.Signature)
	return e
}

// Encode writes the envelope in canonical field order.
func (b *Biscuit) Encode() []byte {
	e := &Enc{}
	if b.RootKeyID != nil {
		e.Varint(1, uint64(*b.RootKeyID))
	}
	e.Msg(2, b.Authority.enc())
	for _, sb := range b.Blocks {
		e.Msg(3, sb.enc())
	}
	p := &Enc{}
	if b.Proof.HasSecret {
		p.Bytes(1, b.Proof.Secret)
	}
	if b.Proof.HasFinal {
		p.Bytes(2, b.Proof.Final)
	}
	e.Msg(4, p)
	return e.Buf
}

// Clone makes a deep copy (mutations never alias the original).
func (b *Biscuit) Clone() *Biscuit {
	c := &Biscuit{}
	if b.RootKeyID != nil {
		id := *b.RootKeyID
		c.RootKeyID = &id
	}
	c.Authority = b.Authority.clone()
	for _, sb := range b.Blocks {
		c.Blocks = append(c.Blocks, sb.clone())
	}
	c.Proof = Proof{HasSecret: b.Proof.HasSecret, Secret: append([]byte{}, b.Proof.Secret...), HasFinal: b.Proof.HasFinal, Final: append([]byte{}, b.Proof.Final...)}
	return c
}

func (sb SignedBlock) clone() SignedBlock {
	return SignedBlock{Block: append([]byte{}, sb.Block...), Alg: sb.Alg, AlgAbsent: sb.AlgAbsent,
		NextKey: append([]byte{}, sb.NextKey...), Signature: append([]byte{}, sb.Signature...)}
}

// All returns authority followed by the later blocks.
func (b *Biscuit) All() []SignedBlock {
	return append([]SignedBlock{b.Authority}, b.Blocks...)
}

// Clone returns a deep copy of the signed block.
func (sb SignedBlock) Clone() SignedBlock { return sb.clone() }
