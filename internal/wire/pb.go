// Package wire is an independent reader and writer for the published Biscuit
// protobuf schema (pb/biscuit.proto of the library follows it). It does not
// import the generated pb package nor google.golang.org/protobuf. Field numbers
// and enum values are typed in from the schema.
package wire

import (
	"errors"
	"fmt"
)

// ---- raw protobuf wire format ----

const (
	WTVarint  = 0
	WTFixed64 = 1
	WTBytes   = 2
	WTFixed32 = 5
)

type Field struct {
	Num int
	WT  int
	V   uint64 // varint / fixed value
	B   []byte // length-delimited payload
}

var ErrTruncated = errors.New("wire: truncated message")

func readVarint(b []byte) (uint64, int, error) {
	var v uint64
	for i := 0; i < len(b); i++ {
		if i == 10 {
			return 0, 0, errors.New("wire: varint too long")
		}
		c := b[i]
		if i == 9 && c > 1 {
			return 0, 0, errors.New("wire: varint overflows 64 bits")
		}
		v |= uint64(c&0x7f) << (7 * uint(i))
		if c < 0x80 {
			return v, i + 1, nil
		}
	}
	return 0, 0, ErrTruncated
}

// Parse splits a message into fields (no schema knowledge).
func Parse(b []byte) ([]Field, error) {
	var out []Field
	for len(b) > 0 {
		tag, n, err := readVarint(b)
		if err != nil {
			return nil, err
		}
		b = b[n:]
		num, wt := int(tag>>3), int(tag&7)
		if num == 0 || tag>>3 > 1<<29-1 {
			return nil, errors.New("wire: invalid field number")
		}
		f := Field{Num: num, WT: wt}
		switch wt {
		case WTVarint:
			v, n, err := readVarint(b)
			if err != nil {
				return nil, err
			}
			f.V = v
			b = b[n:]
		case WTFixed64:
			if len(b) < 8 {
				return nil, ErrTruncated
			}
			for i := 0; i < 8; i++ {
				f.V |= uint64(b[i]) << (8 * uint(i))
			}
			b = b[8:]
		case WTFixed32:
			if len(b) < 4 {
				return nil, ErrTruncated
			}
			for i := 0; i < 4; i++ {
				f.V |= uint64(b[i]) << (8 * uint(i))
			}
			b = b[4:]
		case WTBytes:
			l, n, err := readVarint(b)
			if err != nil {
				return nil, err
			}
			b = b[n:]
			if l > uint64(len(b)) {
				return nil, ErrTruncated
			}
			f.B = b[:l]
			b = b[l:]
		default:
			return nil, fmt.Errorf("wire: unsupported wire type %d", wt)
		}
		out = append(out, f)
	}
	return out, nil
}

// Enc builds a message.
type Enc struct{ Buf []byte }

func (e *Enc) rawVarint(v uint64) {
	for v >= 0x80 {
		e.Buf = append(e.Buf, byte(v)|0x80)
		v >>= 7
	}
	e.Buf = append(e.Buf, byte(v))
}

func (e *Enc) Varint(num int, v uint64) {
	e.rawVarint(uint64(num)<<3 | WTVarint)
	e.rawVarint(v)
}

func (e *Enc) Bytes(num int, b []byte) {
	e.rawVarint(uint64(num)<<3 | WTBytes)
	e.rawVarint(uint64(len(b)))
	e.Buf = append(e.Buf, b...)
}

func (e *Enc) Msg(num int, sub *Enc) { e.Bytes(num, sub.Buf) }

// LongVarint emits v with redundant continuation bytes (still a valid varint).
func (e *Enc) LongVarint(num int, v uint64, extra int) {
	e.rawVarint(uint64(num)<<3 | WTVarint)
	for i := 0; i < extra; i++ {
		e.Buf = append(e.Buf, byte(v)|0x80)
		v >>= 7
	}
	e.rawVarint(v)
}

// helpers over parsed fields (protobuf semantics: last scalar wins, repeated
// occurrences of a singular embedded message merge = concatenate)

func lastVarint(fs []Field, num int) (uint64, bool) {
	var v uint64
	ok := false
	for _, f := range fs {
		if f.Num == num && f.WT == WTVarint {
			v, ok = f.V, true
		}
	}
	return v, ok
}

func lastBytes(fs []Field, num int) ([]byte, bool) {
	var v []byte
	ok := false
	for _, f := range fs {
		if f.Num == num && f.WT == WTBytes {
			v, ok = f.B, true
		}
	}
	return v, ok
}

func mergedMsg(fs []Field, num int) ([]byte, bool) {
	var v []byte
	ok := false
	for _, f := range fs {
		if f.Num == num && f.WT == WTBytes {
			v = append(v, f.B...)
			ok = true
		}
	}
	return v, ok
}

func allBytes(fs []Field, num int) [][]byte {
	var out [][]byte
	for _, f := range fs {
		if f.Num == num && f.WT == WTBytes {
			out = append(out, f.B)
		}
	}
	return out
}
