package gen

import (
	"fmt"

	"pgregory.net/rapid"

	m "verif/internal/model"
	"verif/internal/ref"
)

type PredSig struct {
	Name string
	Cols []Type
}

type Schema struct {
	Preds []PredSig
	P     Profile
}

var predNames = []string{"right", "resource", "operation", "user", "owner", "p", "q", "r", "edge", "reach",
	"member_of", "t0", "role", "admin", "query", "read", "allowed", "has_x"}

var varNames = []string{"x", "y", "z", "u", "v", "w", "read", "resource", "a", "file1", "x1", "0", "var_1", "Long:name"}

func drawColType(t *rapid.T) Type {
	switch n := rapid.IntRange(0, 99).Draw(t, "coltype"); {
	case n < 38:
		return TInt
	case n < 76:
		return TStr
	case n < 82:
		return TDate
	case n < 87:
		return TBytes
	case n < 92:
		return TBool
	default:
		return rapid.SampledFrom(SetTypes).Draw(t, "setcol")
	}
}

// DrawSchema draws a small vocabulary; names may repeat at different arities.
func DrawSchema(t *rapid.T, p Profile, minPreds, maxPreds int) Schema {
	s := Schema{P: p}
	n := rapid.IntRange(minPreds, maxPreds).Draw(t, "npreds")
	for i := 0; i < n; i++ {
		name := rapid.SampledFrom(predNames).Draw(t, "pname")
		ar := rapid.SampledFrom([]int{0, 1, 1, 1, 2, 2, 2, 3}).Draw(t, "arity")
		sig := PredSig{Name: name}
		for j := 0; j < ar; j++ {
			sig.Cols = append(sig.Cols, drawColType(t))
		}
		dup := false
		for _, e := range s.Preds {
			if e.Name == sig.Name && len(e.Cols) == len(sig.Cols) {
				dup = true // same name and arity must keep one column typing
			}
		}
		if !dup {
			s.Preds = append(s.Preds, sig)
		}
	}
	if len(s.Preds) == 0 {
		s.Preds = append(s.Preds, PredSig{Name: "p", Cols: []Type{TInt}})
	}
	return s
}

func (s Schema) DrawSig(t *rapid.T, label string) PredSig {
	return s.Preds[rapid.IntRange(0, len(s.Preds)-1).Draw(t, label)]
}

func (s Schema) DrawFact(t *rapid.T) m.Pred {
	sig := s.DrawSig(t, "fact.sig")
	f := m.Pred{Name: sig.Name}
	for _, c := range sig.Cols {
		f.Terms = append(f.Terms, s.P.DrawConst(t, c, "fact.c"))
	}
	return f
}

func (s Schema) DrawFacts(t *rapid.T, lo, hi int) []m.Pred {
	n := rapid.IntRange(lo, hi).Draw(t, "nfacts")
	seen := map[string]bool{}
	var out []m.Pred
	for i := 0; i < n; i++ {
		f := s.DrawFact(t)
		if !seen[f.Key()] {
			seen[f.Key()] = true
			out = append(out, f)
		}
	}
	return out
}

// scope tracks typed variables while a body is generated.
type scope struct {
	names []string
	types map[string]Type
}

func newScope() *scope { return &scope{types: map[string]Type{}} }

func (sc *scope) ofType(ty Type) []string {
	var out []string
	for _, n := range sc.names {
		if sc.types[n] == ty {
			out = append(out, n)
		}
	}
	return out
}

func (sc *scope) fresh(t *rapid.T, ty Type) string {
	for tries := 0; tries < 4; tries++ {
		n := rapid.SampledFrom(varNames).Draw(t, "vname")
		if _, ok := sc.types[n]; !ok {
			sc.names = append(sc.names, n)
			sc.types[n] = ty
			return n
		}
	}
	n := fmt.Sprintf("g%d", len(sc.names))
	sc.names = append(sc.names, n)
	sc.types[n] = ty
	return n
}

func (s Schema) drawBodyPred(t *rapid.T, sc *scope) m.Pred {
	sig := s.DrawSig(t, "body.sig")
	p := m.Pred{Name: sig.Name}
	for _, c := range sig.Cols {
		switch rapid.IntRange(0, 9).Draw(t, "body.term") {
		case 0, 1:
			p.Terms = append(p.Terms, s.P.DrawConst(t, c, "body.c"))
		case 2, 3, 4, 5:
			if ex := sc.ofType(c); len(ex) > 0 {
				p.Terms = append(p.Terms, m.Var(rapid.SampledFrom(ex).Draw(t, "body.reuse")))
				continue
			}
			fallthrough
		default:
			p.Terms = append(p.Terms, m.Var(sc.fresh(t, c)))
		}
	}
	return p
}

type RuleCfg struct {
	MaxBody   int
	MaxExprs  int
	ExprDepth int
}

var DefaultRuleCfg = RuleCfg{MaxBody: 3, MaxExprs: 2, ExprDepth: 3}

func (s Schema) exprCfg(sc *scope) ExprCfg {
	return ExprCfg{P: s.P, ErrorFree: true, Vars: sc.types, Parens: true}
}

// DrawRule draws a range-restricted rule: every head variable occurs in the body.
func (s Schema) DrawRule(t *rapid.T, cfg RuleCfg) m.Rule {
	sc := newScope()
	var r m.Rule
	nb := rapid.IntRange(1, cfg.MaxBody).Draw(t, "nbody")
	if rapid.IntRange(0, 30).Draw(t, "expronly") == 0 {
		nb = 0
	}
	for i := 0; i < nb; i++ {
		r.Body = append(r.Body, s.drawBodyPred(t, sc))
	}
	ne := rapid.IntRange(0, cfg.MaxExprs).Draw(t, "nexprs")
	if nb == 0 {
		ne = 1
	}
	for i := 0; i < ne; i++ {
		r.Exprs = append(r.Exprs, s.exprCfg(sc).Draw(t, TBool, rapid.IntRange(2, cfg.ExprDepth).Draw(t, "edepth")))
	}
	sig := s.DrawSig(t, "head.sig")
	r.Head = m.Pred{Name: sig.Name}
	for _, c := range sig.Cols {
		if ex := sc.ofType(c); len(ex) > 0 && rapid.IntRange(0, 4).Draw(t, "head.var") > 0 {
			r.Head.Terms = append(r.Head.Terms, m.Var(rapid.SampledFrom(ex).Draw(t, "head.v")))
		} else {
			r.Head.Terms = append(r.Head.Terms, s.P.DrawConst(t, c, "head.c"))
		}
	}
	return r
}

func (s Schema) DrawRules(t *rapid.T, lo, hi int, cfg RuleCfg) []m.Rule {
	n := rapid.IntRange(lo, hi).Draw(t, "nrules")
	var out []m.Rule
	for i := 0; i < n; i++ {
		out = append(out, s.DrawRule(t, cfg))
	}
	if n > 0 && rapid.IntRange(0, 9).Draw(t, "nonbool") == 0 {
		// an expression whose value is not a boolean (an integer here) is not "true": the rule
		// never fires, without an error
		i := rapid.IntRange(0, n-1).Draw(t, "nonbool.of")
		r := out[i]
		r.Exprs = append(append([]*m.Expr{}, r.Exprs...), m.Bin("+", m.V(m.Int(1)), m.V(m.Int(2))))
		out[i] = r
	}
	if n > 0 && rapid.IntRange(0, 5).Draw(t, "twin") == 0 {
		// near-duplicates: two rules that agree in head, body, variable names and operands and
		// differ only in one operator (one of them is satisfiable, the other is not)
		i := rapid.IntRange(0, n-1).Draw(t, "twin.of")
		orig, twin := out[i], out[i]
		ops := [2]string{"<", ">"}
		if rapid.Bool().Draw(t, "twin.swap") {
			ops = [2]string{">", "<"}
		}
		mk := func(op string) *m.Expr { return m.Bin(op, m.V(m.Int(1)), m.V(m.Int(2))) }
		orig.Exprs = append(append([]*m.Expr{}, out[i].Exprs...), mk(ops[0]))
		twin.Exprs = append(append([]*m.Expr{}, out[i].Exprs...), mk(ops[1]))
		out[i] = orig
		out = append(out, twin)
	}
	return out
}

// UniformFail returns an expression that raises an error on every binding.
func UniformFail(t *rapid.T) *m.Expr {
	switch rapid.IntRange(0, 3).Draw(t, "ufail") {
	case 0:
		return m.Bin("==", m.Bin("/", m.V(m.Int(1)), m.V(m.Int(0))), m.V(m.Int(1)))
	case 1:
		return m.Bin("<", m.V(m.Str("a")), m.V(m.Int(1)))
	case 2:
		return m.Bin("&&", m.V(m.Int(1)), m.V(m.Bool(true)))
	default:
		return m.Un("!", m.V(m.Str("x")))
	}
}

// generalise turns ground facts into a body: constants are kept or replaced by
// variables; equal values may share a variable (a join).
func (s Schema) generalise(t *rapid.T, facts []m.Pred, sc *scope, env map[string]m.Term) []m.Pred {
	byVal := map[string]string{}
	var body []m.Pred
	for _, f := range facts {
		p := m.Pred{Name: f.Name}
		for _, c := range f.Terms {
			ty, ok := TypeOf(c)
			if !ok || rapid.IntRange(0, 9).Draw(t, "gen.keep") < 3 {
				p.Terms = append(p.Terms, c)
				continue
			}
			if v, ok := byVal[c.Key()]; ok && rapid.IntRange(0, 3).Draw(t, "gen.share") > 0 {
				p.Terms = append(p.Terms, m.Var(v))
				continue
			}
			v := sc.fresh(t, ty)
			byVal[c.Key()] = v
			env[v] = c
			p.Terms = append(p.Terms, m.Var(v))
		}
		body = append(body, p)
	}
	return body
}

var absentByType = map[Type]m.Term{
	TInt: m.Int(424242), TStr: m.Str("nope"), TDate: m.Date(77), TBytes: m.Bytes([]byte{0x6e, 0x6f}), TBool: m.Bool(false),
}

// DrawQuery draws a query body aimed at being satisfied (or not) by closure.
// The actual truth is always decided by the reference, never by the aim.
func (s Schema) DrawQuery(t *rapid.T, closure []m.Pred, aimSat bool, head m.Pred) m.Rule {
	sc := newScope()
	env := map[string]m.Term{}
	q := m.Rule{Head: head}
	if len(closure) == 0 || rapid.IntRange(0, 11).Draw(t, "q.free") == 0 {
		// undirected: arbitrary body
		nb := rapid.IntRange(1, 2).Draw(t, "q.nb")
		for i := 0; i < nb; i++ {
			q.Body = append(q.Body, s.drawBodyPred(t, sc))
		}
		if rapid.Bool().Draw(t, "q.e") {
			q.Exprs = append(q.Exprs, s.exprCfg(sc).Draw(t, TBool, 3))
		}
		return q
	}
	k := rapid.IntRange(1, 3).Draw(t, "q.k")
	var picked []m.Pred
	for i := 0; i < k; i++ {
		picked = append(picked, closure[rapid.IntRange(0, len(closure)-1).Draw(t, "q.pick")])
	}
	q.Body = s.generalise(t, picked, sc, env)
	if rapid.IntRange(0, 2).Draw(t, "q.expr") == 0 {
		e := s.exprCfg(sc).Draw(t, TBool, rapid.IntRange(2, 3).Draw(t, "q.ed"))
		if v, err := ref.EvalTree(e, env); err == nil && v.K == m.KBool {
			if !v.Bo {
				e = m.Un("!", m.Un("()", e))
			}
			q.Exprs = append(q.Exprs, e)
		}
	}
	if !aimSat {
		switch rapid.IntRange(0, 3).Draw(t, "q.break") {
		case 0: // a constant no fact carries
			i := rapid.IntRange(0, len(q.Body)-1).Draw(t, "q.bi")
			if n := len(q.Body[i].Terms); n > 0 {
				j := rapid.IntRange(0, n-1).Draw(t, "q.bj")
				old := q.Body[i].Terms[j]
				ty := TInt
				if old.K == m.KVar {
					ty = sc.types[old.S]
				} else if ot, ok := TypeOf(old); ok {
					ty = ot
				}
				if a, ok := absentByType[ty]; ok {
					q.Body[i].Terms[j] = a
				} else {
					q.Body[i].Name = "absent"
				}
			} else {
				q.Body[i].Name = "absent"
			}
		case 1:
			q.Body = append(q.Body, m.P("absent", m.Var(sc.fresh(t, TInt))))
		case 2:
			q.Exprs = append(q.Exprs, m.Bin("==", m.V(m.Int(1)), m.V(m.Int(2))))
		default:
			q.Exprs = []*m.Expr{UniformFail(t)} // the only expression: no dependence on sibling order
		}
	}
	return q
}

var QueryHead = m.Pred{Name: "query"}

type CheckCfg struct {
	PSat       int // percent of checks aimed at being satisfied
	MaxQueries int
}

// DrawCheck: a disjunction of queries; when aimed at satisfied, one query
// (not necessarily the first) is aimed at satisfied.
func (s Schema) DrawCheck(t *rapid.T, closure []m.Pred, cfg CheckCfg) m.Check {
	if rapid.IntRange(0, 40).Draw(t, "chk.empty") == 0 {
		return m.Check{} // zero queries: can never be satisfied
	}
	nq := rapid.IntRange(1, cfg.MaxQueries).Draw(t, "chk.nq")
	sat := rapid.IntRange(0, 99).Draw(t, "chk.sat") < cfg.PSat
	which := rapid.IntRange(0, nq-1).Draw(t, "chk.which")
	var c m.Check
	for i := 0; i < nq; i++ {
		if rapid.IntRange(0, 40).Draw(t, "chk.true") == 0 {
			c.Queries = append(c.Queries, m.Rule{Head: QueryHead}) // empty body: always true
			continue
		}
		c.Queries = append(c.Queries, s.DrawQuery(t, closure, sat && i == which, QueryHead))
	}
	return c
}

func (s Schema) DrawChecks(t *rapid.T, closure []m.Pred, lo, hi int, cfg CheckCfg) []m.Check {
	n := rapid.IntRange(lo, hi).Draw(t, "nchecks")
	var out []m.Check
	for i := 0; i < n; i++ {
		out = append(out, s.DrawCheck(t, closure, cfg))
	}
	return out
}

func (s Schema) DrawPolicy(t *rapid.T, closure []m.Pred, pMatch int) m.Policy {
	p := m.Policy{Allow: rapid.IntRange(0, 9).Draw(t, "pol.allow") < 6}
	if rapid.IntRange(0, 40).Draw(t, "pol.empty") == 0 {
		return p // zero queries: never matches
	}
	nq := rapid.IntRange(1, 3).Draw(t, "pol.nq")
	match := rapid.IntRange(0, 99).Draw(t, "pol.match") < pMatch
	which := rapid.IntRange(0, nq-1).Draw(t, "pol.which")
	for i := 0; i < nq; i++ {
		if rapid.IntRange(0, 30).Draw(t, "pol.true") == 0 {
			p.Queries = append(p.Queries, m.Rule{Head: m.Pred{Name: "policy"}})
			continue
		}
		p.Queries = append(p.Queries, s.DrawQuery(t, closure, match && i == which, m.Pred{Name: "policy"}))
	}
	return p
}

// DrawPanelQuery draws a rule whose head exposes body variables, for Query panels.
func (s Schema) DrawPanelQuery(t *rapid.T, closure []m.Pred) m.Rule {
	sc := newScope()
	env := map[string]m.Term{}
	var q m.Rule
	if len(closure) > 0 && rapid.IntRange(0, 3).Draw(t, "pq.directed") > 0 {
		k := rapid.IntRange(1, 2).Draw(t, "pq.k")
		var picked []m.Pred
		for i := 0; i < k; i++ {
			picked = append(picked, closure[rapid.IntRange(0, len(closure)-1).Draw(t, "pq.pick")])
		}
		q.Body = s.generalise(t, picked, sc, env)
	} else {
		nb := rapid.IntRange(1, 2).Draw(t, "pq.nb")
		for i := 0; i < nb; i++ {
			q.Body = append(q.Body, s.drawBodyPred(t, sc))
		}
	}
	if len(q.Body) > 0 && rapid.IntRange(0, 3).Draw(t, "pq.headisbody") == 3 {
		// the head repeats a body predicate: every answer is a fact the world already holds
		b := q.Body[rapid.IntRange(0, len(q.Body)-1).Draw(t, "pq.whichbody")]
		q.Head = m.Pred{Name: b.Name, Terms: append([]m.Term{}, b.Terms...)}
		return q
	}
	q.Head = m.Pred{Name: "panel"}
	for _, n := range sc.names {
		if rapid.IntRange(0, 3).Draw(t, "pq.head") > 0 {
			q.Head.Terms = append(q.Head.Terms, m.Var(n))
		}
	}
	return q
}

// ProgCfg sizes tokens and authorizers.
type ProgCfg struct {
	MinBlocks, MaxBlocks int // later blocks
	MaxFacts             int // per holder
	MaxRules             int
	MaxChecks            int
	MaxPolicies          int
	MaxClosure           int // cap on any world's closure size
	RuleCfg              RuleCfg
	PCheckSat            int
	PPolicyMatch         int
	RuleErrors           bool // allow a uniformly failing expression inside a rule (rare)
}

var DefaultProg = ProgCfg{MinBlocks: 0, MaxBlocks: 3, MaxFacts: 5, MaxRules: 3, MaxChecks: 2, MaxPolicies: 4,
	MaxClosure: 60, RuleCfg: DefaultRuleCfg, PCheckSat: 85, PPolicyMatch: 40}

type Scenario struct {
	Schema Schema
	Token  m.Token
	Authz  m.Authz
}

// fitClosure drops trailing rules until the closure stays small and error free.
func fitClosure(facts []m.Pred, rules []m.Rule, max int, allowErr bool) ([]m.Rule, ref.LFPResult) {
	for {
		r := ref.LFP(facts, rules)
		if (r.Facts.Len() <= max && !r.Diverged && !r.Ambiguous && (allowErr || !r.RuleError)) || len(rules) == 0 {
			return rules, r
		}
		rules = rules[:len(rules)-1]
	}
}

// DrawScenario draws a token and an authorizer, goal-directed.
func DrawScenario(t *rapid.T, cfg ProgCfg, p Profile) Scenario {
	s := DrawSchema(t, p, 2, 5)
	sc := Scenario{Schema: s}
	authFacts := s.DrawFacts(t, 0, cfg.MaxFacts)
	azFacts := s.DrawFacts(t, 0, cfg.MaxFacts)
	authRules := s.DrawRules(t, 0, cfg.MaxRules, cfg.RuleCfg)
	azRules := s.DrawRules(t, 0, (cfg.MaxRules+1)/2, cfg.RuleCfg)
	if cfg.RuleErrors && rapid.IntRange(0, 24).Draw(t, "ruleerr") == 0 {
		r := s.DrawRule(t, cfg.RuleCfg)
		r.Exprs = []*m.Expr{UniformFail(t)}
		authRules = append(authRules, r)
	}
	// fit the authority-level closure
	all := append(append([]m.Rule{}, azRules...), authRules...)
	allFacts := append(append([]m.Pred{}, azFacts...), authFacts...)
	fit, A := fitClosure(allFacts, all, cfg.MaxClosure, cfg.RuleErrors)
	if len(fit) < len(all) {
		// rules were dropped from the end: authority rules go first
		na := len(fit) - len(azRules)
		if na < 0 {
			azRules = azRules[:len(fit)]
			authRules = nil
		} else {
			authRules = authRules[:na]
		}
	}
	closure := A.Facts.List()
	ccfg := CheckCfg{PSat: cfg.PCheckSat, MaxQueries: 3}
	sc.Authz = m.Authz{Facts: azFacts, Rules: azRules}
	sc.Authz.Checks = s.DrawChecks(t, closure, 0, cfg.MaxChecks, ccfg)
	np := rapid.IntRange(0, cfg.MaxPolicies).Draw(t, "npol")
	for i := 0; i < np; i++ {
		sc.Authz.Policies = append(sc.Authz.Policies, s.DrawPolicy(t, closure, cfg.PPolicyMatch))
	}
	authority := m.Block{Facts: authFacts, Rules: authRules}
	authority.Checks = s.DrawChecks(t, closure, 0, cfg.MaxChecks, ccfg)
	if rapid.IntRange(0, 5).Draw(t, "ctx") == 0 {
		authority.Context = rapid.SampledFrom([]string{"ctx", "read", "a b"}).Draw(t, "ctxv")
	}
	sc.Token.Blocks = append(sc.Token.Blocks, authority)
	nb := rapid.IntRange(cfg.MinBlocks, cfg.MaxBlocks).Draw(t, "nblocks")
	for i := 0; i < nb; i++ {
		sc.Token.Blocks = append(sc.Token.Blocks, s.DrawBlock(t, closure, cfg))
	}
	if cfg.MaxBlocks >= 2 && rapid.IntRange(0, 9).Draw(t, "crossblock") == 0 {
		// cross-block bait: one block carries only a rule (deriving nothing from what it can see),
		// a later block carries the fact that rule would fire on and a check on the derived fact
		// (or the other way round); optionally a check-only block in between. Scoping says the
		// check fails.
		ruleBlock := m.Block{Rules: []m.Rule{{Head: m.P("xb_out", m.Var("b")), Body: []m.Pred{m.P("xb_src", m.Var("b"))}}}}
		factBlock := m.Block{Facts: []m.Pred{m.P("xb_src", m.Int(1))},
			Checks: []m.Check{{Queries: []m.Rule{{Head: QueryHead, Body: []m.Pred{m.P("xb_out", m.Int(1))}}}}}}
		var mid []m.Block
		if rapid.Bool().Draw(t, "crossblock.mid") {
			mid = []m.Block{{Checks: []m.Check{{Queries: []m.Rule{{Head: QueryHead, Body: []m.Pred{m.P("xb_src", m.Var("c"))}}, {Head: QueryHead}}}}}}
		}
		switch rapid.IntRange(0, 2).Draw(t, "crossblock.order") {
		case 0:
			sc.Token.Blocks = append(append(append(sc.Token.Blocks, ruleBlock), mid...), factBlock)
		case 1:
			sc.Token.Blocks = append(append(append(sc.Token.Blocks, factBlock), mid...), ruleBlock)
		default:
			// the fact is the authorizer's (visible to every block); a block without facts derives
			// from it, and a later block without facts checks for the derived fact: what one block
			// derives stays in that block
			sc.Authz.Facts = append(sc.Authz.Facts, m.P("xb_src", m.Int(1)))
			checkBlock := m.Block{Checks: []m.Check{{Queries: []m.Rule{{Head: QueryHead, Body: []m.Pred{m.P("xb_out", m.Int(1))}}}}}}
			sc.Token.Blocks = append(append(append(sc.Token.Blocks, ruleBlock), mid...), checkBlock)
		}
	}
	return sc
}

// DrawBlock draws a later block whose checks are aimed at its own world.
func (s Schema) DrawBlock(t *rapid.T, authClosure []m.Pred, cfg ProgCfg) m.Block {
	b := m.Block{Facts: s.DrawFacts(t, 0, cfg.MaxFacts)}
	rules := s.DrawRules(t, 0, cfg.MaxRules, cfg.RuleCfg)
	base := append(append([]m.Pred{}, authClosure...), b.Facts...)
	rules, B := fitClosure(base, rules, cfg.MaxClosure+20, false)
	b.Rules = rules
	b.Checks = s.DrawChecks(t, B.Facts.List(), 0, cfg.MaxChecks, CheckCfg{PSat: cfg.PCheckSat, MaxQueries: 3})
	return b
}

// DrawAuthz draws authorizer content aimed at an existing token: checks and
// policies are goal-directed against the authority-level closure.
func (s Schema) DrawAuthz(t *rapid.T, tok m.Token, cfg ProgCfg) m.Authz {
	az := m.Authz{Facts: s.DrawFacts(t, 0, cfg.MaxFacts)}
	rules := s.DrawRules(t, 0, (cfg.MaxRules+1)/2, cfg.RuleCfg)
	auth := tok.Blocks[0]
	facts := append(append([]m.Pred{}, az.Facts...), auth.Facts...)
	for {
		all := append(append([]m.Rule{}, rules...), auth.Rules...)
		r := ref.LFP(facts, all)
		if (r.Facts.Len() <= cfg.MaxClosure && !r.Diverged && !r.Ambiguous && !r.RuleError) || len(rules) == 0 {
			break
		}
		rules = rules[:len(rules)-1]
	}
	az.Rules = rules
	closure := ref.LFP(facts, append(append([]m.Rule{}, rules...), auth.Rules...)).Facts.List()
	az.Checks = s.DrawChecks(t, closure, 0, cfg.MaxChecks, CheckCfg{PSat: cfg.PCheckSat, MaxQueries: 3})
	np := rapid.IntRange(0, cfg.MaxPolicies).Draw(t, "npol")
	for i := 0; i < np; i++ {
		az.Policies = append(az.Policies, s.DrawPolicy(t, closure, cfg.PPolicyMatch))
	}
	return az
}

// AuthClosure returns the authority-level closure of a scenario (nil on error).
func AuthClosure(tok m.Token, az m.Authz) []m.Pred {
	facts := append(append([]m.Pred{}, az.Facts...), tok.Blocks[0].Facts...)
	rules := append(append([]m.Rule{}, az.Rules...), tok.Blocks[0].Rules...)
	return ref.LFP(facts, rules).Facts.List()
}

// instantiate replaces the variables of a predicate by constants of the column
// type the schema gives (or by drawn constants when the schema is silent).
func (s Schema) instantiate(t *rapid.T, p m.Pred, env map[string]m.Term) m.Pred {
	var cols []Type
	for _, sig := range s.Preds {
		if sig.Name == p.Name && len(sig.Cols) == len(p.Terms) {
			cols = sig.Cols
		}
	}
	out := m.Pred{Name: p.Name}
	for i, x := range p.Terms {
		if x.K != m.KVar {
			out.Terms = append(out.Terms, x)
			continue
		}
		if v, ok := env[x.S]; ok {
			out.Terms = append(out.Terms, v)
			continue
		}
		ty := TInt
		if cols != nil {
			ty = cols[i]
		} else {
			ty = rapid.SampledFrom(ScalarTypes).Draw(t, "inst.ty")
		}
		v := s.P.DrawConst(t, ty, "inst.c")
		env[x.S] = v
		out.Terms = append(out.Terms, v)
	}
	return out
}

// DrawAdversarialBlock draws a block a token holder could append in order to
// turn a refusal into an acceptance: ground facts satisfying the queries of
// failing checks and of allow policies, rules deriving them, copies of
// authority facts, facts over default symbols, ill-typed content, and checks.
func (s Schema) DrawAdversarialBlock(t *rapid.T, tok m.Token, az m.Authz, checkFree bool) m.Block {
	var targets []m.Rule
	for _, c := range az.Checks {
		targets = append(targets, c.Queries...)
	}
	for _, b := range tok.Blocks {
		for _, c := range b.Checks {
			targets = append(targets, c.Queries...)
		}
	}
	for _, p := range az.Policies {
		if p.Allow {
			targets = append(targets, p.Queries...)
		}
	}
	var b m.Block
	seen := map[string]bool{}
	addFact := func(f m.Pred) {
		if f.Ground() && !seen[f.Key()] {
			seen[f.Key()] = true
			b.Facts = append(b.Facts, f)
		}
	}
	if rapid.Bool().Draw(t, "adv.full") {
		// full attack: satisfy one query of every check and of the first allow policy
		attack := func(qs []m.Rule) {
			if len(qs) == 0 {
				return
			}
			q := qs[rapid.IntRange(0, len(qs)-1).Draw(t, "adv.fq")]
			env := map[string]m.Term{}
			for _, p := range q.Body {
				addFact(s.instantiate(t, p, env))
			}
		}
		for _, c := range az.Checks {
			attack(c.Queries)
		}
		for _, blk := range tok.Blocks {
			for _, c := range blk.Checks {
				attack(c.Queries)
			}
		}
		for _, p := range az.Policies {
			if p.Allow {
				attack(p.Queries)
				break
			}
		}
	}
	n := rapid.IntRange(0, 3).Draw(t, "adv.n")
	for i := 0; i < n; i++ {
		switch k := rapid.IntRange(0, 9).Draw(t, "adv.kind"); {
		case k <= 3 && len(targets) > 0:
			// satisfy every body predicate of one target query with ground facts
			q := targets[rapid.IntRange(0, len(targets)-1).Draw(t, "adv.q")]
			env := map[string]m.Term{}
			for _, p := range q.Body {
				addFact(s.instantiate(t, p, env))
			}
		case k <= 5 && len(targets) > 0:
			// a rule whose head is a predicate a target query asks for
			q := targets[rapid.IntRange(0, len(targets)-1).Draw(t, "adv.q")]
			if len(q.Body) == 0 {
				continue
			}
			p := q.Body[rapid.IntRange(0, len(q.Body)-1).Draw(t, "adv.p")]
			head := s.instantiate(t, p, map[string]m.Term{})
			r := m.Rule{Head: head}
			if rapid.Bool().Draw(t, "adv.body") {
				r.Body = []m.Pred{s.drawBodyPred(t, newScope())}
			}
			b.Rules = append(b.Rules, r)
		case k == 6:
			// copy of an authority fact or of an authorizer fact
			src := append(append([]m.Pred{}, tok.Blocks[0].Facts...), az.Facts...)
			if len(src) > 0 {
				addFact(src[rapid.IntRange(0, len(src)-1).Draw(t, "adv.copy")])
			}
		case k == 7:
			// facts over default symbols and request-like facts
			name := rapid.SampledFrom([]string{"right", "resource", "operation", "user", "admin", "role", "query", "policy", "allow"}).Draw(t, "adv.dn")
			ar := rapid.IntRange(0, 2).Draw(t, "adv.ar")
			f := m.Pred{Name: name}
			for j := 0; j < ar; j++ {
				f.Terms = append(f.Terms, m.Str(rapid.SampledFrom([]string{"read", "write", "file1", "file2", "admin", "a"}).Draw(t, "adv.ds")))
			}
			addFact(f)
		case k == 8 && !checkFree:
			// arbitrary content, possibly ill-formed
			switch rapid.IntRange(0, 2).Draw(t, "adv.ill") {
			case 0:
				r := s.DrawRule(t, DefaultRuleCfg)
				r.Exprs = []*m.Expr{UniformFail(t)}
				b.Rules = append(b.Rules, r)
			case 1:
				r := s.DrawRule(t, DefaultRuleCfg)
				r.Head.Terms = append(r.Head.Terms, m.Var("unbound_head"))
				b.Rules = append(b.Rules, r)
			default:
				b.Rules = append(b.Rules, s.DrawRule(t, DefaultRuleCfg))
			}
		default:
			addFact(s.DrawFact(t))
		}
	}
	if !checkFree && rapid.IntRange(0, 3).Draw(t, "adv.chk") == 0 {
		b.Checks = s.DrawChecks(t, append(append([]m.Pred{}, tok.Blocks[0].Facts...), b.Facts...), 1, 1, CheckCfg{PSat: 70, MaxQueries: 2})
	}
	return b
}
