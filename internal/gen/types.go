// Package gen holds the rapid generators: typed schemas, constants with
// boundary pools, type-correct expression trees, range-restricted rules,
// goal-directed checks and policies, tokens and authorizer content.
// Every random choice is a rapid draw.
package gen

import (
	"math"

	"pgregory.net/rapid"

	m "verif/internal/model"
)

type Type int

const (
	TInt Type = iota
	TStr
	TDate
	TBytes
	TBool
	TSetInt
	TSetStr
	TSetDate
	TSetBytes
	TSetBool
)

var ScalarTypes = []Type{TInt, TStr, TDate, TBytes, TBool}
var SetTypes = []Type{TSetInt, TSetStr, TSetDate, TSetBytes, TSetBool}
var AllTypes = append(append([]Type{}, ScalarTypes...), SetTypes...)

func (t Type) IsSet() bool { return t >= TSetInt }
func (t Type) Elem() Type {
	switch t {
	case TSetInt:
		return TInt
	case TSetStr:
		return TStr
	case TSetDate:
		return TDate
	case TSetBytes:
		return TBytes
	case TSetBool:
		return TBool
	}
	return t
}
func SetOfType(e Type) Type {
	switch e {
	case TInt:
		return TSetInt
	case TStr:
		return TSetStr
	case TDate:
		return TSetDate
	case TBytes:
		return TSetBytes
	case TBool:
		return TSetBool
	}
	return e
}

func (t Type) String() string {
	return [...]string{"int", "str", "date", "bytes", "bool", "set<int>", "set<str>", "set<date>", "set<bytes>", "set<bool>"}[t]
}

func TypeOf(v m.Term) (Type, bool) {
	switch v.K {
	case m.KInt:
		return TInt, true
	case m.KStr:
		return TStr, true
	case m.KDate:
		return TDate, true
	case m.KBytes:
		return TBytes, true
	case m.KBool:
		return TBool, true
	case m.KSet:
		if len(v.Set) == 0 {
			return TSetInt, false
		}
		et, ok := TypeOf(v.Set[0])
		if !ok || et.IsSet() {
			return TSetInt, false
		}
		return SetOfType(et), true
	}
	return TInt, false
}

// DefaultSymbols is this package's own copy of the 28 default symbols.
var DefaultSymbols = []string{"read", "write", "resource", "operation", "right", "time", "role", "owner", "tenant",
	"namespace", "user", "team", "service", "admin", "email", "group", "member", "ip_address", "client", "client_ip",
	"domain", "path", "version", "cluster", "node", "hostname", "nonce", "query"}

var BoundaryInts = []int64{math.MinInt64, math.MinInt64 + 1, -1, 0, 1, math.MaxInt64 - 1, math.MaxInt64}

// Profile controls the constant pools.
type Profile struct {
	SmallInts  []int64
	Strs       []string
	Dates      []uint64
	BytesPool  [][]byte
	Boundary   bool // mix in 64-bit boundary integers and odd strings
	SetMaxLen  int
	AllowEmpty bool // allow empty sets (cannot be serialized, fine at datalog level)
	KeepDups   bool // sometimes leave a set constant as drawn (unsorted, repeated elements) instead of canonical
}

var SmallProfile = Profile{
	SmallInts: []int64{0, 1, 2, 3, -1, 5},
	Strs:      []string{"a", "b", "ab", "file1", "file2", "read", "write", "admin", "", "x1"},
	Dates:     []uint64{0, 1, 1000, 1700000000, 1 << 32},
	BytesPool: [][]byte{{}, {0}, {0, 0xff}, {0xaa, 0xbb, 0xcc}},
	SetMaxLen: 3,
}

var BoundaryProfile = Profile{
	SmallInts: []int64{0, 1, 2, 3, -1, 5, 7, 10, -2, 100},
	Strs: []string{"a", "b", "ab", "abc", "file1", "read", "write", "", "x1", "a.c", "^a", "a$", "(", "[a-", "a|b", ".*",
		"resource", "query", "0", "$x"},
	Dates:      []uint64{0, 1, 1000, 1700000000, 1 << 32, 1<<32 + 1, 1<<63 - 1},
	BytesPool:  [][]byte{{}, {0}, {0, 0xff}, {0xaa, 0xbb, 0xcc}, {0xff}},
	Boundary:   true,
	SetMaxLen:  3,
	AllowEmpty: true,
}

func (p Profile) DrawInt(t *rapid.T, label string) int64 {
	if p.Boundary && rapid.IntRange(0, 9).Draw(t, label+".cls") < 4 {
		if rapid.Bool().Draw(t, label+".near") {
			b := rapid.SampledFrom(BoundaryInts).Draw(t, label+".b")
			d := rapid.Int64Range(-2, 2).Draw(t, label+".d")
			// saturating neighbour
			if d > 0 && b > math.MaxInt64-d {
				return math.MaxInt64
			}
			if d < 0 && b < math.MinInt64-d {
				return math.MinInt64
			}
			return b + d
		}
		return rapid.SampledFrom([]int64{math.MinInt64, math.MaxInt64, 1 << 31, 1 << 32, -(1 << 32), 3037000500, -3037000500, 1 << 62}).Draw(t, label+".big")
	}
	return rapid.SampledFrom(p.SmallInts).Draw(t, label)
}

func (p Profile) DrawScalar(t *rapid.T, ty Type, label string) m.Term {
	switch ty {
	case TInt:
		return m.Int(p.DrawInt(t, label))
	case TStr:
		return m.Str(rapid.SampledFrom(p.Strs).Draw(t, label))
	case TDate:
		return m.Date(rapid.SampledFrom(p.Dates).Draw(t, label))
	case TBytes:
		return m.Bytes(rapid.SampledFrom(p.BytesPool).Draw(t, label))
	case TBool:
		return m.Bool(rapid.Bool().Draw(t, label))
	}
	panic("DrawScalar: set type")
}

func (p Profile) DrawConst(t *rapid.T, ty Type, label string) m.Term {
	if !ty.IsSet() {
		return p.DrawScalar(t, ty, label)
	}
	lo := 1
	if p.AllowEmpty {
		lo = 0
	}
	n := rapid.IntRange(lo, p.SetMaxLen).Draw(t, label+".n")
	es := make([]m.Term, 0, n)
	for i := 0; i < n; i++ {
		es = append(es, p.DrawScalar(t, ty.Elem(), label+".e"))
	}
	if p.Boundary && rapid.IntRange(0, 11).Draw(t, label+".big") == 11 {
		// a large set (8-12 distinct elements): implementations may change representation with size
		k := rapid.IntRange(8, 12).Draw(t, label+".bign")
		for i := 0; i < k; i++ {
			switch ty.Elem() {
			case TInt:
				es = append(es, m.Int(int64(100+i)))
			case TStr:
				es = append(es, m.Str("big"+string(rune('a'+i))))
			case TDate:
				es = append(es, m.Date(uint64(5000+i)))
			case TBytes:
				es = append(es, m.Bytes([]byte{byte(i), 7}))
			}
		}
	}
	if len(es) == 0 {
		return m.Term{K: m.KSet}
	}
	if p.KeepDups && rapid.Bool().Draw(t, label+".asdrawn") {
		// as the caller wrote it: order kept, an element may occur twice
		return m.Term{K: m.KSet, Set: es}
	}
	return m.Term{K: m.KSet, Set: m.CanonSet(es)}
}
