package gen

import (
	"pgregory.net/rapid"

	m "verif/internal/model"
)

// ExprCfg controls expression generation.
type ExprCfg struct {
	P         Profile
	ErrorFree bool            // only expressions that evaluate without error on every binding
	Vars      map[string]Type // variables in scope, by type
	Parens    bool            // sprinkle redundant "()" nodes
}

var ValidRegexes = []string{"a", "^a", "b$", "a.c", "^file[0-9]$", "a|b", ".*", "^$", "[a-c]+"}

func (c ExprCfg) varsOf(ty Type) []string {
	var out []string
	for n, t := range c.Vars {
		if t == ty {
			out = append(out, n)
		}
	}
	// deterministic order
	for i := 1; i < len(out); i++ {
		for j := i; j > 0 && out[j] < out[j-1]; j-- {
			out[j], out[j-1] = out[j-1], out[j]
		}
	}
	return out
}

func (c ExprCfg) leaf(t *rapid.T, ty Type) *m.Expr {
	vs := c.varsOf(ty)
	if len(vs) > 0 && rapid.IntRange(0, 2).Draw(t, "leaf.var") > 0 {
		return m.V(m.Var(rapid.SampledFrom(vs).Draw(t, "leaf.name")))
	}
	return m.V(c.P.DrawConst(t, ty, "leaf.c"))
}

// smallIntLeaf is used in the error-free fragment so arithmetic cannot overflow.
func (c ExprCfg) smallIntLeaf(t *rapid.T) *m.Expr {
	vs := c.varsOf(TInt)
	if len(vs) > 0 && rapid.Bool().Draw(t, "leaf.var") {
		return m.V(m.Var(rapid.SampledFrom(vs).Draw(t, "leaf.name")))
	}
	return m.V(m.Int(rapid.SampledFrom(c.P.SmallInts).Draw(t, "leaf.i")))
}

// Draw generates a type-correct expression tree of the wanted type.
func (c ExprCfg) Draw(t *rapid.T, want Type, depth int) *m.Expr {
	e := c.draw(t, want, depth)
	return e
}

func (c ExprCfg) draw(t *rapid.T, want Type, depth int) *m.Expr {
	if depth <= 1 {
		if want == TInt && c.ErrorFree {
			return c.smallIntLeaf(t)
		}
		return c.leaf(t, want)
	}
	if c.Parens && rapid.IntRange(0, 7).Draw(t, "paren") == 0 {
		return m.Un("()", c.draw(t, want, depth-1))
	}
	sub := func(ty Type) *m.Expr { return c.draw(t, ty, depth-1) }
	switch want {
	case TBool:
		switch rapid.IntRange(0, 11).Draw(t, "bool.prod") {
		case 0:
			return c.leaf(t, TBool)
		case 1:
			op := rapid.SampledFrom([]string{"<", "<=", ">", ">="}).Draw(t, "cmp")
			return m.Bin(op, sub(TInt), sub(TInt))
		case 2:
			op := rapid.SampledFrom([]string{"<", "<=", ">", ">="}).Draw(t, "cmp")
			return m.Bin(op, sub(TDate), sub(TDate))
		case 3:
			ty := rapid.SampledFrom(AllTypes).Draw(t, "eq.ty")
			return m.Bin("==", sub(ty), sub(ty))
		case 4:
			ty := rapid.SampledFrom(ScalarTypes).Draw(t, "in.ty")
			return m.Bin("contains", sub(SetOfType(ty)), sub(ty))
		case 5:
			ty := rapid.SampledFrom(SetTypes).Draw(t, "sub.ty")
			return m.Bin("contains", sub(ty), sub(ty))
		case 6:
			op := rapid.SampledFrom([]string{"contains", "starts_with", "ends_with"}).Draw(t, "strop")
			return m.Bin(op, sub(TStr), sub(TStr))
		case 7:
			if c.ErrorFree {
				return m.Bin("matches", sub(TStr), m.V(m.Str(rapid.SampledFrom(ValidRegexes).Draw(t, "re"))))
			}
			return m.Bin("matches", sub(TStr), sub(TStr))
		case 8:
			return m.Bin("&&", sub(TBool), sub(TBool))
		case 9:
			return m.Bin("||", sub(TBool), sub(TBool))
		case 10:
			return m.Un("!", sub(TBool))
		default:
			return m.Bin("==", sub(TInt), sub(TInt))
		}
	case TInt:
		switch rapid.IntRange(0, 6).Draw(t, "int.prod") {
		case 0:
			if c.ErrorFree {
				return c.smallIntLeaf(t)
			}
			return c.leaf(t, TInt)
		case 1, 2, 3:
			op := rapid.SampledFrom([]string{"+", "-", "*"}).Draw(t, "arith")
			return m.Bin(op, sub(TInt), sub(TInt))
		case 4:
			if c.ErrorFree {
				d := rapid.SampledFrom([]int64{1, 2, 3, -1, -2, 7}).Draw(t, "div")
				return m.Bin("/", sub(TInt), m.V(m.Int(d)))
			}
			return m.Bin("/", sub(TInt), sub(TInt))
		default:
			ty := rapid.SampledFrom([]Type{TStr, TBytes, TSetInt, TSetStr, TSetBytes, TSetDate, TSetBool}).Draw(t, "len.ty")
			return m.Un("length", sub(ty))
		}
	case TStr:
		if rapid.IntRange(0, 2).Draw(t, "str.prod") == 0 {
			return m.Bin("+", sub(TStr), sub(TStr))
		}
		return c.leaf(t, TStr)
	case TDate, TBytes:
		return c.leaf(t, want)
	default: // set types
		if rapid.IntRange(0, 2).Draw(t, "set.prod") == 0 {
			op := rapid.SampledFrom([]string{"union", "intersection"}).Draw(t, "setop")
			return m.Bin(op, sub(want), sub(want))
		}
		return c.leaf(t, want)
	}
}
