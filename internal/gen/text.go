package gen

import (
	"encoding/hex"
	"fmt"
	"strconv"
	"strings"
	"time"

	"pgregory.net/rapid"

	m "verif/internal/model"
)

// Grammar-directed text generation for the Datalog parser (C14, C15).
// The generator builds a token list and, independently of the parser, the
// structure those tokens denote (expressions as trees with explicit "()" nodes,
// flattened to postfix by model.Expr.Postfix).

type Tok struct {
	S     string
	Glue  bool // must not be separated from the next token (never set today)
	NoGap bool
}

type TextCfg struct {
	Printable bool // restrict to the printable domain of C15 (no parameters, no string sets, canonical literals)
	MaxDepth  int
	HexString bool // allow string literals that start with "hex:"
	DupSets   bool // set literals may repeat an element (C15: the printer must keep what was written)
}

type TextGen struct {
	Cfg    TextCfg
	Params map[string]m.Term
	toks   []string
	nparam int
}

var reservedPrefixes = []string{"prefix", "suffix", "matches", "length", "contains", "true", "false", "hex:"}

var identPool = []string{"right", "resource", "operation", "user", "owner", "p", "q", "r", "edge", "f", "member_of", "t0", "admin", "is_ok", "a1", "x", "ns:name", "camelCase", "z9_",
	// names that begin like a method or keyword the lexer does not reserve
	"union_member", "intersections", "starts_with_a", "ends_with_txt", "allow_list", "deny_all", "check_in", "hexa", "orbit", "query", "nonce"}

func validIdent(s string) bool {
	if s == "or" || s == "" {
		return false
	}
	for _, p := range reservedPrefixes {
		if strings.HasPrefix(s, p) {
			return false
		}
	}
	return true
}

func (g *TextGen) ident(t *rapid.T) string {
	if rapid.IntRange(0, 4).Draw(t, "ident.rnd") == 0 {
		s := rapid.StringMatching(`[a-z][a-zA-Z0-9_]{0,6}`).Draw(t, "ident.s")
		if validIdent(s) {
			return s
		}
	}
	return rapid.SampledFrom(identPool).Draw(t, "ident")
}

var varPool = []string{"x", "y", "z", "0", "1", "var", "file", "true", "length", "X_1", "a:b", "resource", "t",
	// default symbols as variable names, the first and the last of the table included
	"read", "query", "nonce", "hostname", "operation", "time", "write"}

func (g *TextGen) variable(t *rapid.T) m.Term {
	return m.Var(rapid.SampledFrom(varPool).Draw(t, "var"))
}

var textStrings = []string{"a", "b", "file1", "/path/to/file.txt", "", "read", "with space", "tab\there", "ünïcode", "semi;colon", "a,b", "(paren)", "$x", "{p}", "check if", "or", "<-", "1", "true", "//c", "'q'", "two\nlines", "cr\rlf\n"}
var printableStrings = []string{"a", "b", "file1", "/path/to/file.txt", "", "read", "with space", "ünïcode", "semi;colon", "a,b", "(paren)", "$x", "check if", "or", "<-", "1", "true", "'q'"}

func (g *TextGen) literal(t *rapid.T, allowSet bool) m.Term {
	k := rapid.IntRange(0, 9).Draw(t, "lit.kind")
	switch {
	case k <= 1:
		if rapid.IntRange(0, 3).Draw(t, "lit.intrnd") == 3 {
			return m.Int(rapid.Int64Range(0, 9223372036854775807).Draw(t, "lit.intv"))
		}
		return m.Int(rapid.SampledFrom([]int64{0, 1, 2, 7, 10, 42, 1000, 1 << 32, 9223372036854775807}).Draw(t, "lit.int"))
	case k <= 4:
		pool := textStrings
		if g.Cfg.Printable {
			pool = printableStrings
		}
		s := rapid.SampledFrom(pool).Draw(t, "lit.str")
		if rapid.IntRange(0, 3).Draw(t, "lit.strrnd") == 3 {
			// any characters except quote and backslash ("any utf8 character sequence between double quotes")
			s = rapid.StringOfN(rapid.RuneFrom([]rune("abcxyzEH019 _-:/.,;()[]{}$<>=!&|+*'#@%?é日\n\t")), 0, 12, -1).Draw(t, "lit.strv")
			if g.Cfg.Printable {
				// C15 cuts String() and Code() into elements at line breaks and brackets: no line breaks there
				s = strings.NewReplacer("\n", "n", "\t", "t").Replace(s)
			}
		}
		if strings.ContainsAny(s, "\\") {
			s = "plain"
		}
		if g.Cfg.HexString && rapid.IntRange(0, 15).Draw(t, "lit.hexstr") == 15 {
			s = rapid.SampledFrom([]string{"hex:41", "hex:", "hex:zz", "hex:4"}).Draw(t, "lit.hexs")
		}
		return m.Str(s)
	case k == 5:
		if rapid.Bool().Draw(t, "lit.daternd") {
			return m.Date(rapid.Uint64Range(0, 253402300799).Draw(t, "lit.datev"))
		}
		return m.Date(rapid.SampledFrom([]uint64{0, 1, 1136214245, 1700000000, 4102444800, 253402300799}).Draw(t, "lit.date"))
	case k == 6:
		if rapid.IntRange(0, 2).Draw(t, "lit.bytesrnd") > 0 {
			return m.Bytes(rapid.SliceOfN(rapid.Byte(), 0, 6).Draw(t, "lit.bytesv"))
		}
		return m.Bytes(rapid.SampledFrom([][]byte{{}, {0}, {0x3d, 0xf9, 0x7f, 0xb5}, {0xAB, 0xCD}, {0xee, 0x01}, {0xe1, 0xab}, {0xff}}).Draw(t, "lit.bytes"))
	case k == 7:
		return m.Bool(rapid.Bool().Draw(t, "lit.bool"))
	case k == 8 && allowSet:
		n := rapid.IntRange(1, 3).Draw(t, "lit.setn")
		var es []m.Term
		first := g.literal(t, false)
		for first.K == m.KStr && g.Cfg.Printable {
			first = m.Int(int64(rapid.IntRange(0, 9).Draw(t, "lit.setint")))
		}
		es = append(es, first)
		for i := 1; i < n; i++ {
			e := g.literal(t, false)
			if e.K != first.K {
				continue
			}
			dup := false
			for _, x := range es {
				if x.Key() == e.Key() {
					dup = true
				}
			}
			if !dup {
				es = append(es, e)
			}
		}
		if g.Cfg.DupSets && rapid.IntRange(0, 3).Draw(t, "lit.setdup") == 3 {
			// the same element written twice: still one set for the generator's structure, but
			// the printer must not change how many times it is written
			es = append(es, es[rapid.IntRange(0, len(es)-1).Draw(t, "lit.setdupi")])
		}
		return m.Term{K: m.KSet, Set: es} // order as written; compared as a set
	default:
		return m.Int(int64(rapid.IntRange(0, 9).Draw(t, "lit.small")))
	}
}

// renderLiteral writes a literal in the documented syntax.
func (g *TextGen) renderLiteral(t *rapid.T, v m.Term) string {
	switch v.K {
	case m.KInt:
		return strconv.FormatInt(v.I, 10)
	case m.KStr:
		return "\"" + v.S + "\""
	case m.KDate:
		tm := time.Unix(int64(v.D), 0).UTC()
		if !g.Cfg.Printable {
			switch rapid.IntRange(0, 3).Draw(t, "date.form") {
			case 1:
				loc := time.FixedZone("", rapid.SampledFrom([]int{3600, -5 * 3600, 19800, -34200}).Draw(t, "date.off"))
				if y := tm.In(loc).Year(); y >= 1 && y <= 9999 {
					return tm.In(loc).Format("2006-01-02T15:04:05-07:00")
				}
			case 2:
				return tm.Format("2006-01-02T15:04:05") + "." + rapid.SampledFrom([]string{"5", "123", "999999999"}).Draw(t, "date.frac") + "Z"
			}
		}
		return tm.Format("2006-01-02T15:04:05Z")
	case m.KBytes:
		h := hex.EncodeToString(v.B)
		if !g.Cfg.Printable && rapid.Bool().Draw(t, "hex.upper") {
			h = strings.ToUpper(h)
		}
		return "hex:" + h
	case m.KBool:
		return strconv.FormatBool(v.Bo)
	case m.KVar:
		return "$" + v.S
	}
	return "?"
}

func (g *TextGen) emit(s ...string) { g.toks = append(g.toks, s...) }

// term draws a term, emits its tokens and returns the denoted model term.
func (g *TextGen) term(t *rapid.T, allowVar bool) m.Term {
	k := rapid.IntRange(0, 9).Draw(t, "term.kind")
	if k <= 2 && allowVar {
		v := g.variable(t)
		g.emit("$" + v.S)
		return v
	}
	if k == 3 && !g.Cfg.Printable {
		// a parameter bound to a value of any type (negative integers enter this way)
		var v m.Term
		if rapid.Bool().Draw(t, "param.neg") {
			v = m.Int(-rapid.Int64Range(1, 1<<40).Draw(t, "param.int"))
		} else {
			v = g.literal(t, true)
			if v.K == m.KSet {
				v = m.Term{K: m.KSet, Set: m.CanonSet(v.Set)}
			}
		}
		g.nparam++
		name := fmt.Sprintf("p%d", g.nparam)
		if g.nparam%3 == 0 {
			name = fmt.Sprintf("P:%d_x", g.nparam)
		}
		g.Params[name] = v
		g.emit("{" + name + "}")
		return v
	}
	v := g.literal(t, true)
	if v.K == m.KSet {
		g.emit("[")
		for i, e := range v.Set {
			if i > 0 {
				g.emit(",")
			}
			g.emit(g.renderLiteral(t, e))
		}
		g.emit("]")
		return m.Term{K: m.KSet, Set: m.CanonSet(v.Set)}
	}
	g.emit(g.renderLiteral(t, v))
	return v
}

func (g *TextGen) pred(t *rapid.T, allowVar bool) m.Pred {
	p := m.Pred{Name: g.ident(t)}
	g.emit(p.Name, "(")
	n := rapid.SampledFrom([]int{0, 1, 1, 2, 2, 3}).Draw(t, "pred.arity")
	for i := 0; i < n; i++ {
		if i > 0 {
			g.emit(",")
		}
		p.Terms = append(p.Terms, g.term(t, allowVar))
	}
	g.emit(")")
	return p
}

// ---- expressions, by precedence level (parser-canonical trees) ----
// level 0: ||   1: &&   2: comparison (non-associative)   3: + -   4: * /   5: ! prefix   6: method calls   7: primary

var methods1 = []string{"contains", "starts_with", "ends_with", "matches", "intersection", "union"}

func (g *TextGen) expr(t *rapid.T, level, depth int) *m.Expr {
	// depth bounds nesting (parentheses, method arguments) and the number of
	// extra operands; descending the precedence ladder costs nothing
	chain := func(ops []string, next int) *m.Expr {
		e := g.expr(t, next, depth)
		n := 0
		if depth > 0 {
			n = rapid.SampledFrom([]int{0, 0, 0, 1, 1, 2}).Draw(t, fmt.Sprintf("chain%d", level))
		}
		for i := 0; i < n; i++ {
			op := rapid.SampledFrom(ops).Draw(t, "chain.op")
			g.emit(op)
			r := g.expr(t, next, depth-1)
			e = m.Bin(op, e, r) // left-associative
		}
		return e
	}
	switch level {
	case 0:
		return chain([]string{"||"}, 1)
	case 1:
		return chain([]string{"&&"}, 2)
	case 2:
		l := g.expr(t, 3, depth)
		if depth > 0 && rapid.IntRange(0, 2).Draw(t, "cmp") > 0 {
			op := rapid.SampledFrom([]string{"<", "<=", ">", ">=", "=="}).Draw(t, "cmp.op")
			g.emit(op)
			r := g.expr(t, 3, depth-1)
			return m.Bin(op, l, r)
		}
		return l
	case 3:
		return chain([]string{"+", "-"}, 4)
	case 4:
		return chain([]string{"*", "/"}, 5)
	case 5:
		if rapid.IntRange(0, 5).Draw(t, "neg") == 5 {
			g.emit("!")
			return m.Un("!", g.expr(t, 6, depth))
		}
		return g.expr(t, 6, depth)
	case 6:
		e := g.expr(t, 7, depth)
		n := 0
		if depth > 0 {
			n = rapid.SampledFrom([]int{0, 0, 0, 1, 1, 2}).Draw(t, "methods")
		}
		for i := 0; i < n; i++ {
			if rapid.IntRange(0, 3).Draw(t, "length") == 3 {
				g.emit(".", "length", "(", ")")
				e = m.Un("length", e)
				continue
			}
			name := rapid.SampledFrom(methods1).Draw(t, "method")
			g.emit(".", name, "(")
			arg := g.expr(t, 0, depth-2)
			g.emit(")")
			e = m.Bin(name, e, arg)
		}
		return e
	default:
		if depth > 0 && rapid.IntRange(0, 3).Draw(t, "paren") == 3 {
			g.emit("(")
			inner := g.expr(t, 0, depth-1)
			g.emit(")")
			return m.Un("()", inner)
		}
		v := g.term(t, true)
		return m.V(v)
	}
}

// body draws rule elements (predicates and expressions in any order); returns them separated.
func (g *TextGen) body(t *rapid.T) ([]m.Pred, []*m.Expr) {
	var preds []m.Pred
	var exprs []*m.Expr
	n := rapid.IntRange(1, 4).Draw(t, "body.n")
	for i := 0; i < n; i++ {
		if i > 0 {
			g.emit(",")
		}
		if rapid.IntRange(0, 2).Draw(t, "body.kind") == 2 {
			exprs = append(exprs, g.expr(t, 0, rapid.IntRange(1, g.Cfg.MaxDepth).Draw(t, "expr.depth")))
		} else {
			preds = append(preds, g.pred(t, true))
		}
	}
	return preds, exprs
}

func (g *TextGen) rule(t *rapid.T) m.Rule {
	head := g.pred(t, true)
	g.emit("<-")
	b, e := g.body(t)
	return m.Rule{Head: head, Body: b, Exprs: e}
}

func (g *TextGen) queries(t *rapid.T, headName string) []m.Rule {
	var out []m.Rule
	n := rapid.SampledFrom([]int{1, 1, 2, 3}).Draw(t, "queries.n")
	for i := 0; i < n; i++ {
		if i > 0 {
			g.emit("or")
		}
		b, e := g.body(t)
		out = append(out, m.Rule{Head: m.Pred{Name: headName}, Body: b, Exprs: e})
	}
	return out
}

func (g *TextGen) check(t *rapid.T) m.Check {
	g.emit("check if")
	return m.Check{Queries: g.queries(t, "query")}
}

func (g *TextGen) policy(t *rapid.T) m.Policy {
	allow := rapid.Bool().Draw(t, "policy.allow")
	if allow {
		g.emit("allow if")
	} else {
		g.emit("deny if")
	}
	return m.Policy{Allow: allow, Queries: g.queries(t, "query")}
}

// TextCase is a generated source text with the structure it denotes.
type TextCase struct {
	Entry    string            `json:"entry"` // fact | rule | check | policy | block | authorizer
	Text     string            `json:"text"`
	Params   map[string]m.Term `json:"params,omitempty"`
	Facts    []m.Pred          `json:"facts,omitempty"`
	Rules    []m.Rule          `json:"rules,omitempty"`
	Checks   []m.Check         `json:"checks,omitempty"`
	Policies []m.Policy        `json:"policies,omitempty"`
}

func wordChar(c byte) bool {
	return c == '_' || c == ':' || c == '$' || (c >= '0' && c <= '9') || (c >= 'a' && c <= 'z') || (c >= 'A' && c <= 'Z')
}

// layout joins tokens with random blanks, tabs and newlines; a separator is
// forced only where two word characters would otherwise merge into one token.
func layout(t *rapid.T, toks []string, minimal bool) string {
	var sb strings.Builder
	gaps := []string{"", "", " ", " ", "  ", "\t", "\n", " \n\t "}
	for i, tk := range toks {
		if i > 0 {
			prev := toks[i-1]
			gap := " "
			if !minimal {
				gap = rapid.SampledFrom(gaps).Draw(t, "gap")
			}
			need := len(prev) > 0 && len(tk) > 0 && wordChar(prev[len(prev)-1]) && wordChar(tk[0])
			// a closing quote followed by an opening quote, or "<" followed by "-", would change tokenisation
			if len(prev) > 0 && len(tk) > 0 {
				a, b := prev[len(prev)-1], tk[0]
				if (a == '<' && b == '-') || (a == '|' && b == '|') || (a == '&' && b == '&') || (a == '=' && b == '=') || (a == '>' && b == '=') || (a == '<' && b == '=') || (a == '/' && b == '/') || (a == '!' && b == '=') {
					need = true
				}
			}
			if need && gap == "" {
				gap = " "
			}
			sb.WriteString(gap)
		}
		sb.WriteString(tk)
	}
	return sb.String()
}

// DrawText draws one source text for one of the six entry points.
func DrawText(t *rapid.T, cfg TextCfg, entry string) TextCase {
	g := &TextGen{Cfg: cfg, Params: map[string]m.Term{}}
	if g.Cfg.MaxDepth == 0 {
		g.Cfg.MaxDepth = 5
	}
	c := TextCase{Entry: entry}
	comment := func() {
		if !cfg.Printable && rapid.IntRange(0, 5).Draw(t, "comment") == 0 {
			g.emit("// a comment with $vars, \"quotes\" and ; semicolons\n")
		}
	}
	element := func() {
		switch rapid.IntRange(0, 3).Draw(t, "elem") {
		case 0:
			c.Facts = append(c.Facts, g.pred(t, false))
		case 1:
			c.Rules = append(c.Rules, g.rule(t))
		default:
			c.Checks = append(c.Checks, g.check(t))
		}
	}
	switch entry {
	case "fact":
		c.Facts = append(c.Facts, g.pred(t, false))
	case "rule":
		comment()
		c.Rules = append(c.Rules, g.rule(t))
	case "check":
		c.Checks = append(c.Checks, g.check(t))
	case "policy":
		c.Policies = append(c.Policies, g.policy(t))
	case "block":
		comment()
		n := rapid.IntRange(0, 5).Draw(t, "block.n")
		for i := 0; i < n; i++ {
			element()
			g.emit(";")
		}
	case "authorizer":
		comment()
		n := rapid.IntRange(0, 5).Draw(t, "authz.n")
		for i := 0; i < n; i++ {
			if rapid.IntRange(0, 2).Draw(t, "authz.policy") == 0 {
				c.Policies = append(c.Policies, g.policy(t))
			} else {
				element()
			}
			g.emit(";")
		}
	}
	c.Text = layout(t, g.toks, rapid.IntRange(0, 3).Draw(t, "minimal-layout") == 0)
	if len(g.Params) > 0 {
		c.Params = g.Params
	}
	return c
}
