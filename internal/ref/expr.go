// Package ref holds the reference semantics: an expression evaluator over
// math/big, a naive least-fixpoint Datalog evaluator with a substitution-based
// matcher, the authorization decision procedure, the signature-chain verifier
// and the root-key lookup model. Nothing here imports the library under test.
package ref

import (
	"bytes"
	"errors"
	"fmt"
	"math/big"
	"regexp"
	"strings"

	m "verif/internal/model"
)

const MaxStack = 1000

var (
	ErrType      = errors.New("ref: ill-typed operands")
	ErrOverflow  = errors.New("ref: integer result does not fit in 64 bits")
	ErrDivZero   = errors.New("ref: division by zero")
	ErrStack     = errors.New("ref: malformed operator sequence")
	ErrUnknown   = errors.New("ref: unknown variable")
	ErrRegex     = errors.New("ref: invalid regular expression")
	ErrUnknownOp = errors.New("ref: unknown operator")
)

// Unspecified marks results the operator table does not define (union /
// intersection of sets with different element types): only totality is asserted.
type Unspecified struct{}

func (Unspecified) Error() string { return "ref: value unspecified by the operator table" }

var (
	minI64 = big.NewInt(-1 << 63)
	maxI64 = new(big.Int).SetUint64(1<<63 - 1)
)

func fit(x *big.Int) (m.Term, error) {
	if x.Cmp(minI64) < 0 || x.Cmp(maxI64) > 0 {
		return m.Term{}, ErrOverflow
	}
	return m.Int(x.Int64()), nil
}

// EvalOps evaluates a postfix sequence with variables bound in env.
func EvalOps(ops []m.Op, env map[string]m.Term) (m.Term, error) {
	var st []m.Term
	push := func(t m.Term) error {
		if len(st) >= MaxStack {
			return ErrStack
		}
		st = append(st, t)
		return nil
	}
	for _, o := range ops {
		switch o.Kind {
		case "val":
			v := *o.Val
			if v.K == m.KVar {
				b, ok := env[v.S]
				if !ok {
					return m.Term{}, ErrUnknown
				}
				v = b
			}
			if err := push(v); err != nil {
				return m.Term{}, err
			}
		case "un":
			if len(st) < 1 {
				return m.Term{}, ErrStack
			}
			a := st[len(st)-1]
			st = st[:len(st)-1]
			r, err := EvalUnary(o.Code, a)
			if err != nil {
				return m.Term{}, err
			}
			st = append(st, r)
		case "bin":
			if len(st) < 2 {
				return m.Term{}, ErrStack
			}
			r, l := st[len(st)-1], st[len(st)-2]
			st = st[:len(st)-2]
			v, err := EvalBinary(o.Code, l, r)
			if err != nil {
				return m.Term{}, err
			}
			st = append(st, v)
		default:
			return m.Term{}, ErrUnknownOp
		}
	}
	if len(st) != 1 {
		return m.Term{}, ErrStack
	}
	return st[0], nil
}

func EvalTree(e *m.Expr, env map[string]m.Term) (m.Term, error) {
	return EvalOps(e.Postfix(), env)
}

func EvalUnary(op string, a m.Term) (m.Term, error) {
	switch op {
	case "!":
		if a.K != m.KBool {
			return m.Term{}, ErrType
		}
		return m.Bool(!a.Bo), nil
	case "()":
		return a, nil
	case "length":
		switch a.K {
		case m.KStr:
			return m.Int(int64(len(a.S))), nil
		case m.KBytes:
			return m.Int(int64(len(a.B))), nil
		case m.KSet:
			return m.Int(int64(len(a.Set))), nil
		}
		return m.Term{}, ErrType
	}
	return m.Term{}, ErrUnknownOp
}

func setHas(s []m.Term, e m.Term) bool {
	for _, x := range s {
		if x.Equal(e) {
			return true
		}
	}
	return false
}

func EvalBinary(op string, l, r m.Term) (m.Term, error) {
	switch op {
	case "<", "<=", ">", ">=":
		if l.K != r.K {
			return m.Term{}, ErrType
		}
		var c int
		switch l.K {
		case m.KInt:
			c = big.NewInt(l.I).Cmp(big.NewInt(r.I))
		case m.KDate:
			c = new(big.Int).SetUint64(l.D).Cmp(new(big.Int).SetUint64(r.D))
		default:
			return m.Term{}, ErrType
		}
		switch op {
		case "<":
			return m.Bool(c < 0), nil
		case "<=":
			return m.Bool(c <= 0), nil
		case ">":
			return m.Bool(c > 0), nil
		default:
			return m.Bool(c >= 0), nil
		}
	case "==":
		if l.K != r.K || l.K == m.KVar {
			return m.Term{}, ErrType
		}
		switch l.K {
		case m.KBytes:
			return m.Bool(bytes.Equal(l.B, r.B)), nil
		case m.KSet:
			if len(l.Set) != len(r.Set) {
				return m.Bool(false), nil
			}
			for _, e := range l.Set {
				if !setHas(r.Set, e) {
					return m.Bool(false), nil
				}
			}
			return m.Bool(true), nil
		}
		return m.Bool(l.Equal(r)), nil
	case "contains":
		if l.K == m.KStr {
			if r.K != m.KStr {
				return m.Term{}, ErrType
			}
			return m.Bool(strings.Contains(l.S, r.S)), nil
		}
		if l.K != m.KSet || r.K == m.KVar {
			return m.Term{}, ErrType
		}
		if r.K == m.KSet {
			for _, e := range r.Set {
				if !setHas(l.Set, e) {
					return m.Bool(false), nil
				}
			}
			return m.Bool(true), nil
		}
		return m.Bool(setHas(l.Set, r)), nil
	case "starts_with", "ends_with", "matches":
		if l.K != m.KStr || r.K != m.KStr {
			return m.Term{}, ErrType
		}
		switch op {
		case "starts_with":
			return m.Bool(len(l.S) >= len(r.S) && l.S[:len(r.S)] == r.S), nil
		case "ends_with":
			return m.Bool(len(l.S) >= len(r.S) && l.S[len(l.S)-len(r.S):] == r.S), nil
		}
		re, err := regexp.Compile(r.S)
		if err != nil {
			return m.Term{}, ErrRegex
		}
		return m.Bool(re.MatchString(l.S)), nil
	case "+", "-", "*", "/":
		if op == "+" && l.K == m.KStr {
			if r.K != m.KStr {
				return m.Term{}, ErrType
			}
			return m.Str(l.S + r.S), nil
		}
		if l.K != m.KInt || r.K != m.KInt {
			return m.Term{}, ErrType
		}
		a, b := big.NewInt(l.I), big.NewInt(r.I)
		z := new(big.Int)
		switch op {
		case "+":
			z.Add(a, b)
		case "-":
			z.Sub(a, b)
		case "*":
			z.Mul(a, b)
		case "/":
			if b.Sign() == 0 {
				return m.Term{}, ErrDivZero
			}
			z.Quo(a, b) // truncated toward zero
		}
		return fit(z)
	case "&&", "||":
		if l.K != m.KBool || r.K != m.KBool {
			return m.Term{}, ErrType
		}
		if op == "&&" {
			return m.Bool(l.Bo && r.Bo), nil
		}
		return m.Bool(l.Bo || r.Bo), nil
	case "intersection", "union":
		if l.K != m.KSet || r.K != m.KSet {
			return m.Term{}, ErrType
		}
		if len(l.Set) > 0 && len(r.Set) > 0 && l.Set[0].K != r.Set[0].K {
			return m.Term{}, Unspecified{}
		}
		var out []m.Term
		if op == "union" {
			out = append(out, l.Set...)
			for _, e := range r.Set {
				if !setHas(l.Set, e) {
					out = append(out, e)
				}
			}
		} else {
			for _, e := range l.Set {
				if setHas(r.Set, e) {
					out = append(out, e)
				}
			}
		}
		return m.Term{K: m.KSet, Set: m.CanonSet(out)}, nil
	}
	return m.Term{}, fmt.Errorf("%w: %q", ErrUnknownOp, op)
}
