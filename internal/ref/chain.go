package ref

import (
	"bytes"
	"crypto/ed25519"
	"encoding/binary"

	"verif/internal/wire"
)

// ChainResult is the reference decision on a serialized token under a root key.
type ChainResult struct {
	OK        bool
	Malformed bool // the bytes do not follow the schema (must be rejected as well)
	Reason    string
}

func payload(sb wire.SignedBlock) []byte {
	var alg [4]byte
	binary.LittleEndian.PutUint32(alg[:], uint32(sb.Alg))
	out := append([]byte{}, sb.Block...)
	out = append(out, alg[:]...)
	return append(out, sb.NextKey...)
}

// VerifyChain decides acceptance exactly as property C01 states it: authority
// signed by root, every later block signed by the key announced before it, and
// the proof matching the last announced key.
func VerifyChain(token []byte, root ed25519.PublicKey) ChainResult {
	env, err := wire.DecodeBiscuit(token)
	if err != nil {
		return ChainResult{Malformed: true, Reason: err.Error()}
	}
	return VerifyEnvelope(env, root)
}

func VerifyEnvelope(env *wire.Biscuit, root ed25519.PublicKey) ChainResult {
	all := env.All()
	for i, sb := range all {
		if len(sb.NextKey) != ed25519.PublicKeySize {
			return ChainResult{Reason: "announced key size"}
		}
		if len(sb.Signature) != ed25519.SignatureSize {
			return ChainResult{Reason: "signature size"}
		}
		if sb.Alg != 0 {
			return ChainResult{Reason: "algorithm"}
		}
		blk, err := wire.DecodeBlock(sb.Block)
		if err != nil {
			return ChainResult{Malformed: true, Reason: "block content: " + err.Error()}
		}
		if blk.Version == nil || *blk.Version != 3 {
			return ChainResult{Reason: "unsupported block version"}
		}
		_ = i
	}
	if len(root) != ed25519.PublicKeySize {
		return ChainResult{Reason: "root key size"}
	}
	key := root
	for i, sb := range all {
		if !ed25519.Verify(key, payload(sb), sb.Signature) {
			if i == 0 {
				return ChainResult{Reason: "authority block is not signed by the root key"}
			}
			return ChainResult{Reason: "block is not signed by the key announced before it"}
		}
		key = ed25519.PublicKey(sb.NextKey)
	}
	last := all[len(all)-1]
	switch {
	case env.Proof.HasSecret:
		if len(env.Proof.Secret) != ed25519.SeedSize {
			return ChainResult{Reason: "next secret size"}
		}
		pub := ed25519.NewKeyFromSeed(env.Proof.Secret).Public().(ed25519.PublicKey)
		if !bytes.Equal(pub, key) {
			return ChainResult{Reason: "next secret does not match the last announced key"}
		}
	case env.Proof.HasFinal:
		msg := append(payload(last), last.Signature...)
		if len(env.Proof.Final) != ed25519.SignatureSize || !ed25519.Verify(key, msg, env.Proof.Final) {
			return ChainResult{Reason: "seal signature does not verify under the last announced key"}
		}
	default:
		return ChainResult{Reason: "no proof"}
	}
	return ChainResult{OK: true}
}

// LookupKey is the projection of property C16: the key registered under the
// token's identifier, or the default key when the token has none.
func LookupKey(id *uint32, keys map[uint32]ed25519.PublicKey, def *ed25519.PublicKey) (ed25519.PublicKey, bool) {
	if id == nil {
		if def != nil {
			return *def, true
		}
		return nil, false
	}
	k, ok := keys[*id]
	return k, ok
}
