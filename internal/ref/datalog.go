package ref

import (
	"sort"

	m "verif/internal/model"
)

// FactSet is a set of ground predicates keyed by canonical encoding.
type FactSet struct {
	byKey map[string]m.Pred
	order []string
}

func NewFactSet(fs ...m.Pred) *FactSet {
	s := &FactSet{byKey: map[string]m.Pred{}}
	for _, f := range fs {
		s.Add(f)
	}
	return s
}

func (s *FactSet) Add(f m.Pred) bool {
	k := f.Key()
	if _, ok := s.byKey[k]; ok {
		return false
	}
	s.byKey[k] = f
	s.order = append(s.order, k)
	return true
}

func (s *FactSet) Has(f m.Pred) bool { _, ok := s.byKey[f.Key()]; return ok }
func (s *FactSet) Len() int          { return len(s.order) }

func (s *FactSet) List() []m.Pred {
	out := make([]m.Pred, len(s.order))
	for i, k := range s.order {
		out[i] = s.byKey[k]
	}
	return out
}

func (s *FactSet) Clone() *FactSet {
	c := NewFactSet()
	for _, k := range s.order {
		c.byKey[k] = s.byKey[k]
	}
	c.order = append([]string{}, s.order...)
	return c
}

func (s *FactSet) Key() string {
	ks := append([]string{}, s.order...)
	sort.Strings(ks)
	out := ""
	for i, k := range ks {
		if i > 0 {
			out += ";"
		}
		out += k
	}
	return out
}

// unify matches a body predicate against a ground fact under substitution sub,
// returning the extended substitution (a fresh map) or nil.
func unify(p m.Pred, f m.Pred, sub map[string]m.Term) map[string]m.Term {
	if p.Name != f.Name || len(p.Terms) != len(f.Terms) {
		return nil
	}
	var ext map[string]m.Term
	get := func(n string) (m.Term, bool) {
		if ext != nil {
			if v, ok := ext[n]; ok {
				return v, true
			}
		}
		v, ok := sub[n]
		return v, ok
	}
	for i, t := range p.Terms {
		ft := f.Terms[i]
		if t.K == m.KVar {
			if v, ok := get(t.S); ok {
				if !v.Equal(ft) {
					return nil
				}
				continue
			}
			if ext == nil {
				ext = map[string]m.Term{}
			}
			ext[t.S] = ft
			continue
		}
		if !t.Equal(ft) {
			return nil
		}
	}
	out := make(map[string]m.Term, len(sub)+len(ext))
	for k, v := range sub {
		out[k] = v
	}
	for k, v := range ext {
		out[k] = v
	}
	return out
}

// ApplyResult describes one application of a rule (or query) to a fact set.
type ApplyResult struct {
	Facts      []m.Pred // head instances of all passing substitutions (deduplicated)
	Matches    int      // substitutions matching every body predicate
	Passing    int      // ... that also make every expression true
	ExprErrors int      // ... on which some expression raised an error
	Invalid    bool     // a passing substitution left a head variable unbound
	OrderDep   bool     // some substitution has both a false and a failing expression
}

// Ambiguous: the result depends on evaluation order (an expression failed on
// some substitutions while others passed). Such cases are outside the fragment.
func (r ApplyResult) Ambiguous() bool { return r.OrderDep || (r.ExprErrors > 0 && r.Passing > 0) }

// Apply enumerates all substitutions by recursive back-tracking.
func Apply(rule m.Rule, facts []m.Pred) ApplyResult {
	var res ApplyResult
	seen := map[string]bool{}
	var rec func(i int, sub map[string]m.Term)
	rec = func(i int, sub map[string]m.Term) {
		if i < len(rule.Body) {
			for _, f := range facts {
				if s2 := unify(rule.Body[i], f, sub); s2 != nil {
					rec(i+1, s2)
				}
			}
			return
		}
		res.Matches++
		// every expression is evaluated: a binding on which one expression is
		// false and another raises an error depends on short-circuiting between
		// sibling expressions, which no property fixes
		anyErr, anyFalse := false, false
		for _, e := range rule.Exprs {
			v, err := EvalTree(e, sub)
			if err != nil {
				anyErr = true
			} else if v.K != m.KBool || !v.Bo {
				anyFalse = true
			}
		}
		if anyErr && anyFalse {
			res.OrderDep = true
		}
		if anyErr {
			res.ExprErrors++
			return
		}
		if anyFalse {
			return
		}
		res.Passing++
		head := m.Pred{Name: rule.Head.Name, Terms: make([]m.Term, len(rule.Head.Terms))}
		for j, t := range rule.Head.Terms {
			if t.K == m.KVar {
				v, ok := sub[t.S]
				if !ok {
					res.Invalid = true
					return
				}
				head.Terms[j] = v
			} else {
				head.Terms[j] = t
			}
		}
		k := head.Key()
		if !seen[k] {
			seen[k] = true
			res.Facts = append(res.Facts, head)
		}
	}
	rec(0, map[string]m.Term{})
	return res
}

// LFPResult is the outcome of running a program to its least fixpoint.
type LFPResult struct {
	Facts     *FactSet
	Rounds    int   // productive rounds (rounds that added at least one fact)
	Sizes     []int // fact count after each round, Sizes[0] = input size
	RuleError bool  // some rule raised an expression error or was invalid
	ErrRound  int   // round (1-based) in which the error was seen
	Ambiguous bool
	Diverged  bool // gave up: bound on facts / rounds exceeded
}

const (
	refMaxFacts  = 20000
	refMaxRounds = 2000
)

// LFP computes the least model by naive bottom-up iteration: every round
// applies every rule to the facts known at the start of the round.
func LFP(facts []m.Pred, rules []m.Rule) LFPResult {
	cur := NewFactSet(facts...)
	res := LFPResult{Facts: cur, Sizes: []int{cur.Len()}}
	for round := 1; ; round++ {
		snapshot := cur.List()
		var fresh []m.Pred
		for _, r := range rules {
			a := Apply(r, snapshot)
			if a.Ambiguous() {
				res.Ambiguous = true
			}
			if a.ExprErrors > 0 || a.Invalid {
				res.RuleError = true
				res.ErrRound = round
				return res
			}
			fresh = append(fresh, a.Facts...)
		}
		added := 0
		for _, f := range fresh {
			if cur.Add(f) {
				added++
			}
		}
		if added == 0 {
			return res
		}
		res.Rounds++
		res.Sizes = append(res.Sizes, cur.Len())
		if cur.Len() > refMaxFacts || round > refMaxRounds {
			res.Diverged = true
			return res
		}
	}
}

// Query returns the head instances of all passing substitutions.
func Query(rule m.Rule, facts []m.Pred) ApplyResult { return Apply(rule, facts) }

// Satisfied: a query is satisfied when it has at least one passing substitution
// whose head can be built.
func satisfied(q m.Rule, facts []m.Pred) (bool, bool) {
	a := Apply(q, facts)
	return len(a.Facts) > 0, a.Ambiguous()
}

// Outcome classes of an authorization.
const (
	Allow   = "allow"
	Deny    = "deny"
	NoMatch = "nomatch"
	Checks  = "checks" // verification failure: at least one check failed
	Error   = "error"  // evaluation error (rule raised an error)
	Limit   = "limit"
	Panic   = "panic"
)

type Verdict struct {
	Classes      []string // acceptable classes (usually exactly one)
	FailedChecks int      // number of failed checks when Classes contains Checks
	Ambiguous    bool     // case is outside the fragment (order dependent)
	Diverged     bool
	AuthFacts    *FactSet // authority-level closure (nil on error)
	BlockFacts   []*FactSet
	MaxFacts     int // largest world size reached
	MaxRounds    int // largest number of productive rounds of any world
	// details for non-triviality rules
	FirstQueryFailedLaterOK bool
	DecidingPolicy          int // index, -1 when none
	FailingCheckAndAllow    bool
	BlockCheckNeedsOwnRule  bool
}

func (v Verdict) Is(class string) bool {
	for _, c := range v.Classes {
		if c == class {
			return true
		}
	}
	return false
}

func (v Verdict) Single() string {
	if len(v.Classes) == 1 {
		return v.Classes[0]
	}
	return ""
}

// Authorize is the decision procedure of property C04.
func Authorize(tok m.Token, a m.Authz) Verdict {
	v := Verdict{DecidingPolicy: -1}
	authority := tok.Blocks[0]
	facts := append(append([]m.Pred{}, a.Facts...), authority.Facts...)
	rules := append(append([]m.Rule{}, a.Rules...), authority.Rules...)
	A := LFP(facts, rules)
	v.Ambiguous = A.Ambiguous
	v.MaxFacts, v.MaxRounds = A.Facts.Len(), A.Rounds
	if A.Diverged {
		v.Diverged = true
		return v
	}
	if A.RuleError {
		v.Classes = []string{Error}
		return v
	}
	v.AuthFacts = A.Facts
	af := A.Facts.List()
	failed := 0
	evalCheck := func(c m.Check, fs []m.Pred) bool {
		ok := false
		firstFailed := false
		for i, q := range c.Queries {
			s, amb := satisfied(q, fs)
			if amb {
				v.Ambiguous = true
			}
			if s {
				if i > 0 && firstFailed {
					v.FirstQueryFailedLaterOK = true
				}
				ok = true
				break
			}
			if i == 0 {
				firstFailed = true
			}
		}
		return ok
	}
	for _, c := range a.Checks {
		if !evalCheck(c, af) {
			failed++
		}
	}
	for _, c := range authority.Checks {
		if !evalCheck(c, af) {
			failed++
		}
	}
	policy := NoMatch
	for i, p := range a.Policies {
		matched := false
		for _, q := range p.Queries {
			s, amb := satisfied(q, af)
			if amb {
				v.Ambiguous = true
			}
			if s {
				matched = true
				break
			}
		}
		if matched {
			v.DecidingPolicy = i
			if p.Allow {
				policy = Allow
			} else {
				policy = Deny
			}
			break
		}
	}
	blockErr := false
	for _, b := range tok.Blocks[1:] {
		bf := append(append([]m.Pred{}, af...), b.Facts...)
		B := LFP(bf, b.Rules)
		if B.Ambiguous {
			v.Ambiguous = true
		}
		if B.Diverged {
			v.Diverged = true
			return v
		}
		if B.Facts.Len() > v.MaxFacts {
			v.MaxFacts = B.Facts.Len()
		}
		if B.Rounds > v.MaxRounds {
			v.MaxRounds = B.Rounds
		}
		if B.RuleError {
			blockErr = true
			break
		}
		v.BlockFacts = append(v.BlockFacts, B.Facts)
		bl := B.Facts.List()
		for _, c := range b.Checks {
			ok := evalCheck(c, bl)
			if !ok {
				failed++
			} else if len(b.Rules) > 0 {
				// would it still pass without the block's own rules?
				noRules := append(append([]m.Pred{}, af...), b.Facts...)
				pass := false
				for _, q := range c.Queries {
					if s, _ := satisfied(q, noRules); s {
						pass = true
						break
					}
				}
				if !pass {
					v.BlockCheckNeedsOwnRule = true
				}
			}
		}
	}
	v.FailedChecks = failed
	switch {
	case blockErr && failed > 0:
		v.Classes = []string{Error, Checks}
	case blockErr:
		v.Classes = []string{Error}
	case failed > 0:
		v.Classes = []string{Checks}
		if policy == Allow {
			v.FailingCheckAndAllow = true
		}
	default:
		v.Classes = []string{policy}
	}
	return v
}
