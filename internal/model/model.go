// Package model is the abstract Datalog used by every check: terms, predicates,
// expression trees, rules, checks, policies, blocks and authorizer content.
// It shares no code with the library under test. JSON encoding of these values
// is the replay format; Key() gives the canonical encoding used for hashing and
// for set comparison.
package model

import (
	"encoding/hex"
	"fmt"
	"sort"
	"strconv"
	"strings"
)

type Kind int

const (
	KInt Kind = iota
	KStr
	KDate
	KBytes
	KBool
	KSet
	KVar
)

func (k Kind) String() string {
	switch k {
	case KInt:
		return "int"
	case KStr:
		return "str"
	case KDate:
		return "date"
	case KBytes:
		return "bytes"
	case KBool:
		return "bool"
	case KSet:
		return "set"
	case KVar:
		return "var"
	}
	return "?"
}

// Term is a tagged union. Only the field selected by K is meaningful.
type Term struct {
	K   Kind   `json:"k"`
	I   int64  `json:"i,omitempty"`
	S   string `json:"s,omitempty"` // string value or variable name
	D   uint64 `json:"d,omitempty"` // seconds since epoch
	B   []byte `json:"b,omitempty"`
	Bo  bool   `json:"bo,omitempty"`
	Set []Term `json:"set,omitempty"`
}

func Int(i int64) Term     { return Term{K: KInt, I: i} }
func Str(s string) Term    { return Term{K: KStr, S: s} }
func Date(d uint64) Term   { return Term{K: KDate, D: d} }
func Bytes(b []byte) Term  { return Term{K: KBytes, B: append([]byte{}, b...)} }
func Bool(b bool) Term     { return Term{K: KBool, Bo: b} }
func Var(n string) Term    { return Term{K: KVar, S: n} }
func SetOf(e ...Term) Term { return Term{K: KSet, Set: CanonSet(e)} }

// CanonSet sorts and deduplicates by Key.
func CanonSet(e []Term) []Term {
	out := append([]Term{}, e...)
	sort.Slice(out, func(i, j int) bool { return out[i].Key() < out[j].Key() })
	w := 0
	for i := range out {
		if i > 0 && out[i].Key() == out[w-1].Key() {
			continue
		}
		out[w] = out[i]
		w++
	}
	return out[:w]
}

// Key is the canonical text of a term (sets sorted).
func (t Term) Key() string {
	switch t.K {
	case KInt:
		return "i" + strconv.FormatInt(t.I, 10)
	case KStr:
		return "s" + strconv.Quote(t.S)
	case KDate:
		return "d" + strconv.FormatUint(t.D, 10)
	case KBytes:
		return "x" + hex.EncodeToString(t.B)
	case KBool:
		if t.Bo {
			return "bT"
		}
		return "bF"
	case KVar:
		return "$" + t.S
	case KSet:
		ks := make([]string, len(t.Set))
		for i, e := range t.Set {
			ks[i] = e.Key()
		}
		sort.Strings(ks)
		return "{" + strings.Join(ks, ",") + "}"
	}
	return "?"
}

func (t Term) Equal(o Term) bool { return t.Key() == o.Key() }

func (t Term) IsVar() bool { return t.K == KVar }

// ElemKind returns the element kind of a non-empty set, or -1.
func (t Term) ElemKind() Kind {
	if t.K != KSet || len(t.Set) == 0 {
		return -1
	}
	return t.Set[0].K
}

type Pred struct {
	Name  string `json:"n"`
	Terms []Term `json:"t,omitempty"`
}

func P(name string, terms ...Term) Pred { return Pred{Name: name, Terms: terms} }

func (p Pred) Key() string {
	ks := make([]string, len(p.Terms))
	for i, t := range p.Terms {
		ks[i] = t.Key()
	}
	return p.Name + "(" + strings.Join(ks, ",") + ")"
}

func (p Pred) Ground() bool {
	for _, t := range p.Terms {
		if t.K == KVar {
			return false
		}
	}
	return true
}

// Expr is an expression tree.
// Op is one of: "val", "!", "()", "length", and the binary operator names in BinOps.
type Expr struct {
	Op   string  `json:"op"`
	Val  *Term   `json:"v,omitempty"`
	Args []*Expr `json:"a,omitempty"`
}

var BinOps = []string{"<", "<=", ">", ">=", "==", "contains", "starts_with", "ends_with", "matches",
	"+", "-", "*", "/", "&&", "||", "intersection", "union"}
var UnOps = []string{"!", "()", "length"}

func IsBin(op string) bool {
	for _, b := range BinOps {
		if b == op {
			return true
		}
	}
	return false
}
func IsUn(op string) bool { return op == "!" || op == "()" || op == "length" }

func V(t Term) *Expr                  { return &Expr{Op: "val", Val: &t} }
func Un(op string, a *Expr) *Expr     { return &Expr{Op: op, Args: []*Expr{a}} }
func Bin(op string, l, r *Expr) *Expr { return &Expr{Op: op, Args: []*Expr{l, r}} }

// Op is one element of a postfix operator sequence.
type Op struct {
	Kind string `json:"k"`           // "val", "un", "bin"
	Val  *Term  `json:"v,omitempty"` // for val
	Code string `json:"c,omitempty"` // operator name for un / bin
}

// Postfix flattens the tree (children first, operator last).
func (e *Expr) Postfix() []Op {
	var out []Op
	var walk func(e *Expr)
	walk = func(e *Expr) {
		switch {
		case e.Op == "val":
			v := *e.Val
			out = append(out, Op{Kind: "val", Val: &v})
		case IsUn(e.Op):
			walk(e.Args[0])
			out = append(out, Op{Kind: "un", Code: e.Op})
		default:
			walk(e.Args[0])
			walk(e.Args[1])
			out = append(out, Op{Kind: "bin", Code: e.Op})
		}
	}
	walk(e)
	return out
}

func OpsKey(ops []Op) string {
	var sb strings.Builder
	for i, o := range ops {
		if i > 0 {
			sb.WriteByte(' ')
		}
		if o.Kind == "val" {
			sb.WriteString(o.Val.Key())
		} else {
			sb.WriteString(o.Kind + ":" + o.Code)
		}
	}
	return sb.String()
}

func (e *Expr) Key() string { return OpsKey(e.Postfix()) }

// Vars returns the variable names used in the expression.
func (e *Expr) Vars() []string {
	var out []string
	for _, o := range e.Postfix() {
		if o.Kind == "val" && o.Val.K == KVar {
			out = append(out, o.Val.S)
		}
	}
	return out
}

func (e *Expr) Depth() int {
	if e.Op == "val" {
		return 1
	}
	d := 0
	for _, a := range e.Args {
		if x := a.Depth(); x > d {
			d = x
		}
	}
	return d + 1
}

func (e *Expr) CountOps() int {
	n := 0
	for _, o := range e.Postfix() {
		if o.Kind != "val" {
			n++
		}
	}
	return n
}

type Rule struct {
	Head  Pred    `json:"h"`
	Body  []Pred  `json:"b,omitempty"`
	Exprs []*Expr `json:"e,omitempty"`
}

func (r Rule) Key() string {
	var parts []string
	for _, p := range r.Body {
		parts = append(parts, p.Key())
	}
	for _, e := range r.Exprs {
		parts = append(parts, "["+e.Key()+"]")
	}
	return r.Head.Key() + "<-" + strings.Join(parts, ",")
}

type Check struct {
	Queries []Rule `json:"q"`
}

func (c Check) Key() string {
	ks := make([]string, len(c.Queries))
	for i, q := range c.Queries {
		ks[i] = q.Key()
	}
	return "check{" + strings.Join(ks, " or ") + "}"
}

type Policy struct {
	Allow   bool   `json:"allow"`
	Queries []Rule `json:"q"`
}

func (p Policy) Key() string {
	ks := make([]string, len(p.Queries))
	for i, q := range p.Queries {
		ks[i] = q.Key()
	}
	k := "deny"
	if p.Allow {
		k = "allow"
	}
	return k + "{" + strings.Join(ks, " or ") + "}"
}

type Block struct {
	Facts   []Pred  `json:"facts,omitempty"`
	Rules   []Rule  `json:"rules,omitempty"`
	Checks  []Check `json:"checks,omitempty"`
	Context string  `json:"ctx,omitempty"`
}

func (b Block) Key() string {
	var parts []string
	for _, f := range b.Facts {
		parts = append(parts, f.Key())
	}
	for _, r := range b.Rules {
		parts = append(parts, r.Key())
	}
	for _, c := range b.Checks {
		parts = append(parts, c.Key())
	}
	return "block{" + strings.Join(parts, ";") + "|" + strconv.Quote(b.Context) + "}"
}

type Authz struct {
	Facts    []Pred   `json:"facts,omitempty"`
	Rules    []Rule   `json:"rules,omitempty"`
	Checks   []Check  `json:"checks,omitempty"`
	Policies []Policy `json:"policies,omitempty"`
}

func (a Authz) Key() string {
	var parts []string
	for _, f := range a.Facts {
		parts = append(parts, f.Key())
	}
	for _, r := range a.Rules {
		parts = append(parts, r.Key())
	}
	for _, c := range a.Checks {
		parts = append(parts, c.Key())
	}
	for _, p := range a.Policies {
		parts = append(parts, p.Key())
	}
	return "authz{" + strings.Join(parts, ";") + "}"
}

// Token is the abstract content of a token: authority first.
type Token struct {
	Blocks []Block `json:"blocks"`
}

func (t Token) Key() string {
	ks := make([]string, len(t.Blocks))
	for i, b := range t.Blocks {
		ks[i] = b.Key()
	}
	return "token[" + strings.Join(ks, " ") + "]"
}

// FactSetKey is the canonical encoding of a set of ground predicates.
func FactSetKey(fs []Pred) string {
	ks := make([]string, len(fs))
	for i, f := range fs {
		ks[i] = f.Key()
	}
	sort.Strings(ks)
	w := 0
	for i := range ks {
		if i > 0 && ks[i] == ks[w-1] {
			continue
		}
		ks[w] = ks[i]
		w++
	}
	return strings.Join(ks[:w], ";")
}

// ---- pretty text (Datalog-like, for evidence samples) ----

func (t Term) Text() string {
	switch t.K {
	case KInt:
		return strconv.FormatInt(t.I, 10)
	case KStr:
		return strconv.Quote(t.S)
	case KDate:
		return fmt.Sprintf("@%d", t.D)
	case KBytes:
		return "hex:" + hex.EncodeToString(t.B)
	case KBool:
		return strconv.FormatBool(t.Bo)
	case KVar:
		return "$" + t.S
	case KSet:
		ks := make([]string, len(t.Set))
		for i, e := range t.Set {
			ks[i] = e.Text()
		}
		return "[" + strings.Join(ks, ", ") + "]"
	}
	return "?"
}

func (p Pred) Text() string {
	ks := make([]string, len(p.Terms))
	for i, t := range p.Terms {
		ks[i] = t.Text()
	}
	return p.Name + "(" + strings.Join(ks, ", ") + ")"
}

func (e *Expr) Text() string {
	switch {
	case e.Op == "val":
		return e.Val.Text()
	case e.Op == "!":
		return "!" + e.Args[0].Text()
	case e.Op == "()":
		return "(" + e.Args[0].Text() + ")"
	case e.Op == "length":
		return e.Args[0].Text() + ".length()"
	}
	switch e.Op {
	case "contains", "starts_with", "ends_with", "matches", "intersection", "union":
		return e.Args[0].Text() + "." + e.Op + "(" + e.Args[1].Text() + ")"
	}
	return e.Args[0].Text() + " " + e.Op + " " + e.Args[1].Text()
}

func (r Rule) BodyText() string {
	var parts []string
	for _, p := range r.Body {
		parts = append(parts, p.Text())
	}
	for _, e := range r.Exprs {
		parts = append(parts, e.Text())
	}
	return strings.Join(parts, ", ")
}

func (r Rule) Text() string { return r.Head.Text() + " <- " + r.BodyText() }

func (c Check) Text() string {
	ks := make([]string, len(c.Queries))
	for i, q := range c.Queries {
		ks[i] = q.BodyText()
	}
	return "check if " + strings.Join(ks, " or ")
}

func (p Policy) Text() string {
	ks := make([]string, len(p.Queries))
	for i, q := range p.Queries {
		ks[i] = q.BodyText()
	}
	k := "deny if "
	if p.Allow {
		k = "allow if "
	}
	return k + strings.Join(ks, " or ")
}

func (b Block) Text() string {
	var parts []string
	for _, f := range b.Facts {
		parts = append(parts, f.Text())
	}
	for _, r := range b.Rules {
		parts = append(parts, r.Text())
	}
	for _, c := range b.Checks {
		parts = append(parts, c.Text())
	}
	return strings.Join(parts, "; ")
}

func (a Authz) Text() string {
	var parts []string
	for _, f := range a.Facts {
		parts = append(parts, f.Text())
	}
	for _, r := range a.Rules {
		parts = append(parts, r.Text())
	}
	for _, c := range a.Checks {
		parts = append(parts, c.Text())
	}
	for _, p := range a.Policies {
		parts = append(parts, p.Text())
	}
	return strings.Join(parts, "; ")
}

func (t Token) Text() string {
	ks := make([]string, len(t.Blocks))
	for i, b := range t.Blocks {
		ks[i] = fmt.Sprintf("#%d{%s}", i, b.Text())
	}
	return strings.Join(ks, " ")
}
