package model

import (
	"sort"
	"strconv"
	"strings"
)

// Postfix forms: rules whose expressions are operator sequences, the
// representation used on the wire and by the library's structs.

type PRule struct {
	Head  Pred   `json:"h"`
	Body  []Pred `json:"b,omitempty"`
	Exprs [][]Op `json:"e,omitempty"`
}

func (r PRule) Key() string {
	var parts []string
	for _, p := range r.Body {
		parts = append(parts, p.Key())
	}
	for _, e := range r.Exprs {
		parts = append(parts, "["+OpsKey(e)+"]")
	}
	return r.Head.Key() + "<-" + strings.Join(parts, ",")
}

type PCheck struct {
	Queries []PRule `json:"q"`
}

func (c PCheck) Key() string {
	ks := make([]string, len(c.Queries))
	for i, q := range c.Queries {
		ks[i] = q.Key()
	}
	return "check{" + strings.Join(ks, " or ") + "}"
}

type PPolicy struct {
	Allow   bool    `json:"allow"`
	Queries []PRule `json:"q"`
}

func (p PPolicy) Key() string {
	ks := make([]string, len(p.Queries))
	for i, q := range p.Queries {
		ks[i] = q.Key()
	}
	k := "deny"
	if p.Allow {
		k = "allow"
	}
	return k + "{" + strings.Join(ks, " or ") + "}"
}

type PBlock struct {
	Symbols []string `json:"symbols,omitempty"`
	Facts   []Pred   `json:"facts,omitempty"`
	Rules   []PRule  `json:"rules,omitempty"`
	Checks  []PCheck `json:"checks,omitempty"`
	Context string   `json:"ctx,omitempty"`
	Version uint32   `json:"version,omitempty"`
}

func (r Rule) Postfix() PRule {
	out := PRule{Head: r.Head, Body: r.Body}
	for _, e := range r.Exprs {
		out.Exprs = append(out.Exprs, e.Postfix())
	}
	return out
}

func (c Check) Postfix() PCheck {
	var out PCheck
	for _, q := range c.Queries {
		out.Queries = append(out.Queries, q.Postfix())
	}
	return out
}

func (p Policy) Postfix() PPolicy {
	out := PPolicy{Allow: p.Allow}
	for _, q := range p.Queries {
		out.Queries = append(out.Queries, q.Postfix())
	}
	return out
}

func (b Block) Postfix() PBlock {
	out := PBlock{Facts: b.Facts, Context: b.Context, Version: 3}
	for _, r := range b.Rules {
		out.Rules = append(out.Rules, r.Postfix())
	}
	for _, c := range b.Checks {
		out.Checks = append(out.Checks, c.Postfix())
	}
	return out
}

// ContentKey compares block content: facts and rules as multisets, checks in
// order, context. Symbols and version are compared separately.
func (b PBlock) ContentKey() string {
	fk := make([]string, len(b.Facts))
	for i, f := range b.Facts {
		fk[i] = f.Key()
	}
	sort.Strings(fk)
	rk := make([]string, len(b.Rules))
	for i, r := range b.Rules {
		rk[i] = r.Key()
	}
	sort.Strings(rk)
	ck := make([]string, len(b.Checks))
	for i, c := range b.Checks {
		ck[i] = c.Key()
	}
	return "F{" + strings.Join(fk, ";") + "}R{" + strings.Join(rk, ";") + "}C{" + strings.Join(ck, ";") + "}ctx=" + strconv.Quote(b.Context)
}
